"""Engine D - reference semantics of the core statement / expression language on the AST of a GENERATED program, and the renderer
that turns the same AST into MScript source text.  This file is the oracle of C01 / C15: it says what a program *means*.

AST (python tuples)
  program   : list of module-level statements
  statement : ("assign", name, expr[, type])   ("modify", name, expr)     ("opassign", name, op, expr)   op in + - * / %
              ("print", expr)  ("assert", expr)  ("expr", expr)  ("return", expr|None)  ("break",)  ("continue",)
              ("if", [(cond, body), ...], else_body|None)     ("while", cond, body)
              ("from", start, end, inclusive, step|None, name|None, body)
              ("def", name, [(param, type)], rettype|None, body)
  expr      : ("int", n) ("in", k) ("bool", b) ("nil",) ("str", s) ("var", x)
              ("bin", op, l, r)   op in + - * / % < <= > >= == != && ||
              ("not", e) ("neg", e) ("or", e, fallback) ("get", e) ("unwrapinto", name, e)
              ("call", name, [args]) ("selfcall", [args]) ("list", [elems]) ("index", e, int | varname)
              ("field", obj, name) ("mcall", obj, method, [args]) ("is", a, b)        class instances: ("call", ClassName, [ctor args])
  statement : ("class", name, [(field, type)], [(ctor param, type)], ctor body, [(method, [(param, type)], rettype|None, body)])
              ("setfield", obj, field, expr)  ("opfield", obj, field, op, expr)  ("setindex", list, int | varname, expr)  ("opindex", list, int | varname, op, expr)
              maps (concrete keys): ("map", ktype, vtype, [(key, value)]) ("mindex", map, key); ("msetindex", map, key, expr) ("mopindex", map, key, op, expr);
              ("mcall", map, "len" | "contains_key" | "remove" | "replace" | "clear" | "clone", [args])
              list built-ins: ("mcall", list, "len" | "push" | "remove" | "clear" | "reverse" | "clone" | "join", [args])

Semantics (what the language prescribes; sources: README, compiler/src/tests/*.rs):
  * statements run in order; a function call evaluates its arguments left to right, then runs the body in a fresh scope;
  * `x = e` updates the nearest binding of x in the current function (innermost block outwards) or creates x in the current block;
    a block's own names vanish at its end; names of the enclosing module are visible in a function by reference, written to only
    through `modify`;
  * `from a to|through b [step s][, n]`: a then b are evaluated once (n holds a when b is evaluated - it matters when n names an
    existing variable that b mentions); the body runs while n < b (<= for through); after the body -
    and after `continue` - s is evaluated and added to n; `break` leaves the loop; n is readable in the body; afterwards n is gone,
    unless it names an existing variable (then that variable holds the first value that failed the test);
  * `&&` / `||` evaluate their right operand only when the left one does not decide; `(x) or y` evaluates y only when x is nil;
  * a failing assert, zero divisor, overflow, `get nil`, index out of range stops the program there with a failure status."""
import z3
from core import (str_builtin, STR_BUILTINS, concretize, Some, Module, Fail, Unsupported, OutOfBound, NIL, ListRef, Cell, Fn, Obj, list_builtin, LIST_BUILTINS, MapRef, map_key, map_builtin, MAP_BUILTINS, is_sym, is_int, is_bool, arith, compare, negate, logic_not,
                  logic, equals)


class _Break(Exception):
    pass


class _Continue(Exception):
    pass


class _Return(Exception):
    def __init__(self, v):
        Exception.__init__(self)
        self.v = v


class Closure:
    __slots__ = ("name", "params", "body", "env")

    def __init__(self, name, params, body, env):
        self.name, self.params, self.body, self.env = name, params, body, env


class ClassV:
    __slots__ = ("name", "fields", "ctor_params", "ctor_body", "methods", "env")

    def __init__(self, name, fields, ctor_params, ctor_body, methods, env):
        self.name, self.fields, self.ctor_params, self.ctor_body, self.methods, self.env = name, fields, ctor_params, ctor_body, methods, env


class Interp:
    def __init__(self, oracle, inputs, max_depth=12):
        self.o = oracle
        self.inputs = inputs          # k -> value
        self.depth = 0
        self.max_depth = max_depth

    # scopes: list of dicts (innermost last) for the running function; `outer` = visible enclosing variables (by reference)
    def run_program(self, prog):
        # a multi-module program: {"entry": statements, "modules": {name: statements}}
        self.module_src, self.module_cache, self.exporting = {}, {}, []
        if isinstance(prog, dict):
            self.module_src = prog["modules"]
            prog = prog["entry"]
        scopes = [{}]
        try:
            self.block(prog, scopes, None, None, new_scope=False)
        except _Return:
            raise Unsupported("return at module level")

    def lookup(self, name, scopes, outer):
        for s in reversed(scopes):
            if name in s:
                return s[name]
        if outer is not None and name in outer:
            return outer[name]
        raise Unsupported("reference program reads an unbound name: " + name)

    def block(self, stmts, scopes, outer, me, new_scope=True):
        if new_scope:
            scopes.append({})
        try:
            for st in stmts:
                self.stmt(st, scopes, outer, me)
        finally:
            if new_scope:
                scopes.pop()

    def assign(self, name, v, scopes):
        for s in reversed(scopes):
            if name in s:
                s[name].v = v
                return
        scopes[-1][name] = Cell(v)

    def stmt(self, st, scopes, outer, me):
        o = self.o
        o.tick()
        k = st[0]
        if k == "assign":
            self.assign(st[1], self.expr(st[2], scopes, outer, me), scopes)
        elif k == "modify":
            v = self.expr(st[2], scopes, outer, me)
            if outer is None or st[1] not in outer:
                raise Unsupported("modify of a name that is not captured")
            outer[st[1]].v = v
        elif k == "opassign":
            c = self.lookup(st[1], scopes, outer)
            v = self.expr(st[3], scopes, outer, me)
            c.v = arith(o, st[2], c.v, v)
        elif k == "print":
            o.emit(self.expr(st[1], scopes, outer, me))
        elif k == "assert":
            v = self.expr(st[1], scopes, outer, me)
            if not o.branch(v):
                raise Fail("assert")
        elif k == "expr":
            self.expr(st[1], scopes, outer, me)
        elif k == "return":
            raise _Return(self.expr(st[1], scopes, outer, me) if st[1] is not None else None)
        elif k == "break":
            raise _Break()
        elif k == "continue":
            raise _Continue()
        elif k == "if":
            for cond, body in st[1]:
                if o.branch(self.expr(cond, scopes, outer, me)):
                    self.block(body, scopes, outer, me)
                    return
            if st[2] is not None:
                self.block(st[2], scopes, outer, me)
        elif k == "while":
            while o.branch(self.expr(st[1], scopes, outer, me)):
                try:
                    self.block(st[2], scopes, outer, me)
                except _Break:
                    break
                except _Continue:
                    continue
        elif k == "from":
            _, start, end, inclusive, step, name, body = st
            a = self.expr(start, scopes, outer, me)
            collision = None
            if name is not None:
                for s in reversed(scopes):
                    if name in s:
                        collision = s[name]
                        break
                if collision is None and outer is not None and name in outer:
                    raise Unsupported("loop counter names a captured variable")
            counter = collision if collision is not None else Cell(a)
            counter.v = a                                   # the counter holds the start value before the end bound is evaluated
            b = self.expr(end, scopes, outer, me)
            hidden = {}
            if name is not None and collision is None:
                hidden[name] = counter
            scopes.append(hidden)
            try:
                while o.branch(compare("<=" if inclusive else "<", counter.v, b)):
                    try:
                        self.block(body, scopes, outer, me)
                    except _Break:
                        break
                    except _Continue:
                        pass
                    s = self.expr(step, scopes, outer, me) if step is not None else 1
                    counter.v = arith(o, "+", counter.v, s)
            finally:
                scopes.pop()
        elif k == "class":
            _, name, fields, cparams, cbody, methods = st
            env = {}
            if outer is not None:
                env.update(outer)
            for sc in scopes:
                env.update(sc)
            cv = ClassV(name, fields, cparams, cbody, {m[0]: m for m in methods}, env)
            env[name] = Cell(cv)          # a class can name itself
            self.assign(name, cv, scopes)
        elif k in ("setindex", "opindex"):
            # `xs[i] = e` / `xs[i] += e`: the value is evaluated before the target list and index
            v = self.expr(st[-1], scopes, outer, me)
            lst = self.expr(st[1], scopes, outer, me)
            idx = st[2] if isinstance(st[2], int) else self.lookup(st[2], scopes, outer).v
            if not isinstance(lst, ListRef):
                raise Unsupported("index assignment into a non-list")
            idx = self.pick_index(lst, idx)
            lst.items[idx] = v if k == "setindex" else arith(o, st[3], lst.items[idx], v)
        elif k in ("msetindex", "mopindex"):
            # `m[k] = e` / `m[k] op= e`: the value first, then the map, then the key
            v = self.expr(st[-1], scopes, outer, me)
            m = self.expr(st[1], scopes, outer, me)
            kk = map_key(self.expr(st[2], scopes, outer, me))
            if not isinstance(m, MapRef):
                raise Unsupported("key assignment into a non-map")
            if k == "msetindex":
                m.items[kk] = v
            else:
                if kk not in m.items:
                    raise Fail("mopindex", "no such key")
                m.items[kk] = arith(o, st[3], m.items[kk], v)
        elif k == "opfield":
            # `obj.f op= e`: the value first, then the target object (evaluated once)
            v = self.expr(st[4], scopes, outer, me)
            ob = self.expr(st[1], scopes, outer, me)
            c = self.field_cell(ob, st[2])
            c.v = arith(o, st[3], c.v, v)
        elif k == "setfield":
            # `obj.f = e`: the value is evaluated before the target object
            v = self.expr(st[3], scopes, outer, me)
            ob = self.expr(st[1], scopes, outer, me)
            self.field_cell(ob, st[2]).v = v
        elif k == "sameline":
            for sub in st[1]:           # several statements written on ONE source line (statements need no line break between them)
                self.stmt(sub, scopes, outer, me)
        elif k == "import" or k == "importfrom":
            # the module's top-level code runs the FIRST time an import of it is executed, to the end, before the importer continues;
            # every importer gets the same instance
            name = st[1] if k == "import" else st[2]
            m = self.module_cache.get(name)
            if m is None:
                if name not in self.module_src:
                    raise Unsupported("import of an unknown module " + name)
                m = self.module_cache[name] = Module(name)
                self.exporting.append(m)
                try:
                    try:
                        self.block(self.module_src[name], [{}], None, None, new_scope=False)
                    except _Return:
                        raise Unsupported("return at module level")
                finally:
                    self.exporting.pop()
            if k == "import":
                self.assign(name, m, scopes)
            else:
                for nm in st[1]:
                    if nm not in m.exports:
                        raise Unsupported("import of a name that is not exported")
                    scopes[-1][nm] = Cell(m.exports[nm].v)          # binds the name to the exported VALUE
        elif k == "export":
            # export name: type = expr   - an ordinary module-level variable whose cell importers share
            _, name, ex, _ty = st
            if ex[0] == "fnlit":
                self.stmt(("def", name, ex[1], ex[2], ex[3]), scopes, outer, me)
            else:
                self.assign(name, self.expr(ex, scopes, outer, me), scopes)
            if self.exporting:
                self.exporting[-1].exports[name] = self.lookup(name, scopes, outer)
        elif k == "def":
            _, name, params, ret, body = st
            env = {}
            if outer is not None:
                env.update(outer)
            for s in scopes:
                env.update(s)
            self.assign(name, Closure(name, params, body, env), scopes)
        else:
            raise Unsupported("statement " + k)

    def pick_index(self, lst, idx):
        ln = len(lst.items)
        if is_sym(idx):
            chosen = None
            for j in range(ln):
                if self.o.branch(idx == z3.BitVecVal(j, 32)):
                    chosen = j
                    break
            if chosen is None:
                raise Fail("index")
            idx = chosen
        if idx < 0 or idx >= ln:
            raise Fail("index")
        return idx

    def field_cell(self, ob, name):
        if ob is NIL:
            raise Fail("lookup", "nil object")
        if isinstance(ob, Module):
            if name not in ob.exports:
                raise Unsupported("`%s` is not exported" % name)
            return ob.exports[name]           # importers see the exporter's live variable
        if not isinstance(ob, Obj) or name not in ob.vars:
            raise Unsupported("field `%s` of a non-object" % name)
        return ob.vars[name]

    def method(self, ob, cv, mname, args):
        _, params, ret, body = cv.methods[mname]
        return self.call(Closure(cv.name + "::" + mname, [("self", "Self")] + list(params), body, cv.env), [ob] + args)

    def call(self, f, args):
        if isinstance(f, ClassV):
            ob = Obj(f.name, {fn: Cell(NIL) for fn, _ in f.fields})
            ob.vars["$class"] = Cell(f)
            self.call(Closure(f.name + "::$constructor", [("self", "Self")] + list(f.ctor_params), f.ctor_body, f.env), [ob] + args)
            return ob
        if not isinstance(f, Closure):
            raise Unsupported("call of a non-function")
        self.depth += 1
        if self.depth > self.max_depth:
            raise OutOfBound("call depth")
        try:
            scopes = [{p: Cell(v) for (p, _), v in zip(f.params, args)}]
            try:
                self.block(f.body, scopes, f.env, f, new_scope=False)
            except _Return as r:
                return r.v
            return None
        finally:
            self.depth -= 1

    def expr(self, e, scopes, outer, me):
        o = self.o
        k = e[0]
        if k == "int":
            return e[1]
        if k == "in":
            return self.inputs[e[1]]
        if k == "bool":
            return e[1]
        if k == "nil":
            return NIL
        if k == "str":
            return ("str", e[1])
        if k == "var":
            return self.lookup(e[1], scopes, outer).v
        if k == "bin":
            op = e[1]
            if op in ("&&", "||"):
                l = self.expr(e[2], scopes, outer, me)
                lv = o.branch(l)
                if (op == "&&" and not lv) or (op == "||" and lv):
                    return lv
                r = self.expr(e[3], scopes, outer, me)
                return r
            l = self.expr(e[2], scopes, outer, me)
            r = self.expr(e[3], scopes, outer, me)
            if op in ("+", "-", "*", "/", "%"):
                return arith(o, op, l, r)
            if op in ("<", "<=", ">", ">="):
                return compare(op, l, r)
            if op == "==":
                return equals(l, r)
            if op == "!=":
                return logic_not(equals(l, r))
            raise Unsupported("operator " + op)
        if k == "not":
            return logic_not(self.expr(e[1], scopes, outer, me))
        if k == "neg":
            return negate(o, self.expr(e[1], scopes, outer, me))
        if k == "or":
            v = self.expr(e[1], scopes, outer, me)
            if v is NIL:
                return self.expr(e[2], scopes, outer, me)
            return v
        if k == "map":
            m = MapRef({})
            for ke, ve in e[3]:                   # pairs left to right, key before value
                kk = map_key(self.expr(ke, scopes, outer, me))
                m.items[kk] = self.expr(ve, scopes, outer, me)
            return m
        if k == "mindex":
            m = self.expr(e[1], scopes, outer, me)
            kk = map_key(self.expr(e[2], scopes, outer, me))
            if not isinstance(m, MapRef):
                raise Unsupported("key lookup in a non-map")
            return m.items.get(kk, NIL)           # a missing key reads as nil
        if k == "field":
            return self.field_cell(self.expr(e[1], scopes, outer, me), e[2]).v
        if k == "mcall":
            ob = self.expr(e[1], scopes, outer, me)          # receiver first, then the arguments left to right
            args = [self.expr(a, scopes, outer, me) for a in e[3]]
            if ob is NIL:
                raise Fail("lookup", "nil object")
            if isinstance(ob, Module):
                return self.call(self.field_cell(ob, e[2]).v, args)
            if isinstance(ob, ListRef) and e[2] in ("map", "filter"):
                # xs.map(f): a NEW list of the VALUES f returns, element by element in order; xs.filter(f): a new list of the elements
                # f accepts; the receiver is unchanged
                res = []
                for el in list(ob.items):
                    r = self.call(args[0], [el])
                    if e[2] == "map":
                        res.append(r)
                    else:
                        if not is_bool(r):
                            raise Unsupported("filter callback result")
                        if o.branch(r):
                            res.append(el)
                return ListRef(res)
            if isinstance(ob, tuple) and ob[0] == "str" and e[2] in STR_BUILTINS:
                return str_builtin(o, e[2], ob, args)
            if isinstance(ob, ListRef) and e[2] in LIST_BUILTINS:
                return list_builtin(o, e[2], ob, args)
            if isinstance(ob, MapRef) and e[2] in MAP_BUILTINS:
                return map_builtin(o, e[2], ob, args)
            if not isinstance(ob, Obj):
                raise Unsupported("method call on a non-object")
            return self.method(ob, ob.vars["$class"].v, e[2], args)
        if k == "is":
            l = self.expr(e[1], scopes, outer, me)
            r = self.expr(e[2], scopes, outer, me)
            if isinstance(l, (Obj, ListRef)) and isinstance(r, (Obj, ListRef)):
                return l is r
            return equals(l, r)
        if k == "unwrapinto":
            v = self.expr(e[2], scopes, outer, me)
            self.assign(e[1], v, scopes)          # `a ?= e` stores the value of e into a ...
            return v is not NIL                   # ... and is true exactly when that value is present
        if k == "get":
            v = self.expr(e[1], scopes, outer, me)
            if v is NIL:
                raise Fail("unwrap")
            return v
        if k == "call":
            if e[1] == "Self" and me is not None and "::" in me.name:
                f = self.lookup(me.name.split("::")[0], scopes, outer).v          # `Self(..)` inside a method: the method's own class
            else:
                f = self.lookup(e[1], scopes, outer).v
            args = [self.expr(a, scopes, outer, me) for a in e[2]]
            return self.call(f, args)
        if k == "selfcall":
            args = [self.expr(a, scopes, outer, me) for a in e[1]]
            return self.call(me, args)
        if k == "list":
            return ListRef([self.expr(a, scopes, outer, me) for a in e[1]])
        if k == "index":
            lst = self.expr(e[1], scopes, outer, me)
            idx = e[2] if isinstance(e[2], int) else self.lookup(e[2], scopes, outer).v
            if isinstance(lst, tuple) and lst[0] == "str":
                kk = concretize(o, idx, 0, len(lst[1]) - 1)         # the k-th CHARACTER, as a one-character string
                if kk is None:
                    raise Fail("index")
                return ("str", lst[1][kk])
            if not isinstance(lst, ListRef):
                raise Unsupported("index into a non-list")
            ln = len(lst.items)
            if is_sym(idx):
                chosen = None
                for j in range(ln):
                    if o.branch(idx == z3.BitVecVal(j, 32)):
                        chosen = j
                        break
                if chosen is None:
                    raise Fail("index")
                idx = chosen
            if idx < 0 or idx >= ln:
                raise Fail("index")
            return lst.items[idx]
        raise Unsupported("expression " + k)


# ------------------------------------------------------------------------------------------------ rendering

INPUT_BASE = 90000


def input_literal(k):
    return str(INPUT_BASE + k)


def rexpr(e, inputs=None):
    k = e[0]
    if k == "int":
        return str(e[1]) if e[1] >= 0 else "(-%d)" % -e[1]
    if k == "in":
        if inputs is None:
            return input_literal(e[1])
        v = inputs[e[1]]
        if v == -(1 << 31):
            return "(-2147483647 - 1)"      # there is no int literal for i32::MIN
        return str(v) if v >= 0 else "-%d" % -v
    if k == "bool":
        return "true" if e[1] else "false"
    if k == "nil":
        return "nil"
    if k == "str":
        return '"%s"' % e[1].replace("\\", "\\\\").replace('"', '\\"').replace("\n", "\\n").replace("\r", "\\r").replace("\t", "\\t")
    if k == "var":
        return e[1]
    if k == "bin":
        return "(%s %s %s)" % (rexpr(e[2], inputs), e[1], rexpr(e[3], inputs))
    if k == "big":
        return "B%d" % e[1]
    if k == "typeof":
        return "typeof %s" % rexpr(e[1], inputs)
    if k == "not":
        return "(!%s)" % rexpr(e[1], inputs)
    if k == "neg":
        return "(-%s)" % rexpr(e[1], inputs)
    if k == "or":
        return "((%s) or %s)" % (rexpr(e[1], inputs), rexpr(e[2], inputs))
    if k == "map":
        return "map[%s, %s] {%s}" % (e[1], e[2], ", ".join("%s: %s" % (rexpr(a, inputs), rexpr(b, inputs)) for a, b in e[3]))
    if k == "mindex":
        return "%s[%s]" % (rexpr(e[1], inputs), rexpr(e[2], inputs))
    if k == "field":
        return "%s.%s" % (rrecv(e[1], inputs), e[2])
    if k == "mcall":
        return "%s.%s(%s)" % (rrecv(e[1], inputs), e[2], ", ".join(rexpr(a, inputs) for a in e[3]))
    if k == "is":
        return "(%s is %s)" % (rexpr(e[1], inputs), rexpr(e[2], inputs))
    if k == "unwrapinto":
        return "(%s ?= %s)" % (e[1], rexpr(e[2], inputs))
    if k == "get":
        return "(get %s)" % rexpr(e[1], inputs)
    if k == "call":
        return "%s(%s)" % (e[1], ", ".join(rexpr(a, inputs) for a in e[2]))
    if k == "selfcall":
        return "self(%s)" % ", ".join(rexpr(a, inputs) for a in e[1])
    if k == "list":
        return "[%s]" % ", ".join(rexpr(a, inputs) for a in e[1])
    if k == "index":
        return "%s[%s]" % (rexpr(e[1], inputs), e[2])
    raise ValueError(k)


def rrecv(e, inputs):
    """receiver of a field access / method call: names and member chains as they are, everything else in parentheses"""
    if e[0] in ("var", "field", "mcall"):
        return rexpr(e, inputs)
    if e[0] == "get":
        return "(get %s)" % rexpr(e[1], inputs)
    return "(%s)" % rexpr(e, inputs)


def rstmts(stmts, ind, inputs=None):
    out = []
    t = "\t" * ind
    for st in stmts:
        k = st[0]
        if k == "assign":
            if len(st) > 3 and st[3]:
                out.append("%s%s: %s = %s" % (t, st[1], st[3], rexpr(st[2], inputs)))
            else:
                out.append("%s%s = %s" % (t, st[1], rexpr(st[2], inputs)))
        elif k == "modify":
            out.append("%smodify %s = %s" % (t, st[1], rexpr(st[2], inputs)))
        elif k == "opassign":
            out.append("%s%s %s= %s" % (t, st[1], st[2], rexpr(st[3], inputs)))
        elif k == "print":
            out.append("%sprint %s" % (t, rexpr(st[1], inputs)))
        elif k == "assert":
            out.append("%sassert %s" % (t, rexpr(st[1], inputs)))
        elif k == "expr":
            if st[1][0] == "unwrapinto":
                out.append("%s%s ?= %s" % (t, st[1][1], rexpr(st[1][2], inputs)))
            else:
                out.append("%s%s" % (t, rexpr(st[1], inputs)))
        elif k == "return":
            out.append("%sreturn%s" % (t, (" " + rexpr(st[1], inputs)) if st[1] is not None else ""))
        elif k in ("break", "continue"):
            out.append(t + k)
        elif k == "if":
            for i, (cond, body) in enumerate(st[1]):
                head = "if" if i == 0 else "} else if"
                out.append("%s%s %s {" % (t, head, rexpr(cond, inputs)))
                out += rstmts(body, ind + 1, inputs)
            if st[2] is not None:
                out.append(t + "} else {")
                out += rstmts(st[2], ind + 1, inputs)
            out.append(t + "}")
        elif k == "while":
            out.append("%swhile %s {" % (t, rexpr(st[1], inputs)))
            out += rstmts(st[2], ind + 1, inputs)
            out.append(t + "}")
        elif k == "from":
            _, start, end, inclusive, step, name, body = st
            h = "%sfrom %s %s %s" % (t, rexpr(start, inputs), "through" if inclusive else "to", rexpr(end, inputs))
            if step is not None:
                h += " step %s" % rexpr(step, inputs)
            if name is not None:
                h += ", %s" % name
            out.append(h + " {")
            out += rstmts(body, ind + 1, inputs)
            out.append(t + "}")
        elif k == "setfield":
            out.append("%s%s.%s = %s" % (t, rrecv(st[1], inputs), st[2], rexpr(st[3], inputs)))
        elif k == "msetindex":
            out.append("%s%s[%s] = %s" % (t, rexpr(st[1], inputs), rexpr(st[2], inputs), rexpr(st[3], inputs)))
        elif k == "mopindex":
            out.append("%s%s[%s] %s= %s" % (t, rexpr(st[1], inputs), rexpr(st[2], inputs), st[3], rexpr(st[4], inputs)))
        elif k == "opfield":
            out.append("%s%s.%s %s= %s" % (t, rrecv(st[1], inputs), st[2], st[3], rexpr(st[4], inputs)))
        elif k == "setindex":
            out.append("%s%s[%s] = %s" % (t, rexpr(st[1], inputs), st[2], rexpr(st[3], inputs)))
        elif k == "opindex":
            out.append("%s%s[%s] %s= %s" % (t, rexpr(st[1], inputs), st[2], st[3], rexpr(st[4], inputs)))
        elif k == "class":
            _, name, fields, cparams, cbody, methods = st
            out.append("%sclass %s {" % (t, name))
            for fn, ft in fields:
                out.append("%s\t%s: %s" % (t, fn, ft))
            out.append("%s\tconstructor(%s) {" % (t, ", ".join(["self"] + ["%s: %s" % p for p in cparams])))
            out += rstmts(cbody, ind + 2, inputs)
            out.append("%s\t}" % t)
            for mn, params, ret, body in methods:
                out.append("%s\tfn %s(%s)%s {" % (t, mn, ", ".join(["self"] + ["%s: %s" % p for p in params]), (" -> " + ret) if ret else ""))
                out += rstmts(body, ind + 2, inputs)
                out.append("%s\t}" % t)
            out.append(t + "}")
        elif k == "sameline":
            out.append(t + " ".join(x.strip() for sub in st[1] for x in rstmts([sub], 0, inputs)))
        elif k == "import":
            out.append("%simport %s" % (t, st[1]))
        elif k == "importfrom":
            out.append("%simport %s from %s" % (t, ", ".join(st[1]), st[2]))
        elif k == "export":
            _, name, ex, ty = st
            if ex[0] == "fnlit":
                out.append("%sexport %s: %s = fn(%s)%s {" % (t, name, ty, ", ".join("%s: %s" % p for p in ex[1]), (" -> " + ex[2]) if ex[2] else ""))
                out += rstmts(ex[3], ind + 1, inputs)
                out.append(t + "}")
            else:
                out.append("%sexport %s: %s = %s" % (t, name, ty, rexpr(ex, inputs)))
        elif k == "def":
            _, name, params, ret, body = st
            out.append("%s%s = fn(%s)%s {" % (t, name, ", ".join("%s: %s" % p for p in params), (" -> " + ret) if ret else ""))
            out += rstmts(body, ind + 1, inputs)
            out.append(t + "}")
        else:
            raise ValueError(k)
    return out


def render(prog, inputs=None):
    if isinstance(prog, dict):
        prog = prog["entry"]
    return "\n".join(rstmts(prog, 0, inputs)) + "\n"


def render_modules(prog, inputs=None):
    """the other files of a multi-module program: {file name: text}"""
    if not isinstance(prog, dict):
        return {}
    return {name + ".ms": "\n".join(rstmts(st, 0, inputs)) + "\n" for name, st in prog["modules"].items()}


def fmt_value(v):
    """concrete value -> the text `print` writes (validation against the real stdout)"""
    if v is NIL:
        return "nil"
    if isinstance(v, bool):
        return "true" if v else "false"
    if isinstance(v, int):
        return str(v)
    if isinstance(v, tuple) and v[0] == "str":
        return v[1]
    if isinstance(v, tuple) and v[0] == "big":
        return str(v[1])
    if isinstance(v, tuple) and v[0] == "list":
        return "[" + ", ".join(('"%s"' % x[1]) if isinstance(x, tuple) and x[0] == "str" else fmt_value(x) for x in v[1]) + "]"
    if isinstance(v, tuple) and v[0] == "fn":
        return "<fn>"
    raise ValueError(repr(v))
