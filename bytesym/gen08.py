"""Object histories for C08 (engine D): one class with an int field, an optional Self field, a constructor that may hand `self` to
its parent, methods that read / update / call each other / return self / store another object; a seeded history of constructions,
method calls, field reads and writes, aliasings (assignment, `me()`, list element, stored field) and `is` tests.  Field values
and arguments are the symbolic inputs: per-instance state, write-through via every alias and identity are decided for all values."""
import random

I = lambda n: ("int", n)
V = lambda x: ("var", x)
B = lambda op, l, r: ("bin", op, l, r)
NIN = 3

CLASS = ("class", "Acc", [("n", "int"), ("other", "Self?")], [("start", "int"), ("parent", "Self?")],
         [("setfield", V("self"), "n", V("start")), ("setfield", V("self"), "other", ("nil",)),
          ("if", [(B("!=", V("parent"), ("nil",)), [("expr", ("mcall", ("get", V("parent")), "link", [V("self")]))])], None)],
         [("add", [("by", "int")], "int", [("setfield", V("self"), "n", B("+", ("field", V("self"), "n"), V("by"))), ("return", ("field", V("self"), "n"))]),
          ("peek", [], "int", [("return", ("field", V("self"), "n"))]),
          ("twice", [("by", "int")], "int", [("expr", ("mcall", V("self"), "add", [V("by")])), ("return", ("mcall", V("self"), "add", [V("by")]))]),
          ("me", [], "Self", [("return", V("self"))]),
          ("spawn", [("by", "int")], "Self", [("return", ("call", "Self", [B("+", ("field", V("self"), "n"), V("by")), ("nil",)]))]),
          ("link", [("o", "Self")], None, [("setfield", V("self"), "other", V("o"))]),
          ("via", [("by", "int")], "int", [("return", ("mcall", ("get", ("field", V("self"), "other")), "add", [V("by")]))]),
          ("same", [("o", "Self")], "bool", [("return", ("is", V("o"), V("self")))]),
          # a call chain on `self` whose first link may return ANOTHER instance; a target expression with a side effect
          ("peer", [], "Self", [("return", ("or", ("field", V("self"), "other"), V("self")))]),
          ("chain", [("by", "int")], "int", [("return", ("mcall", ("mcall", V("self"), "peer", []), "add", [V("by")]))]),
          ("step", [], "Self", [("setfield", V("self"), "n", B("+", ("field", V("self"), "n"), I(1))), ("return", ("or", ("field", V("self"), "other"), V("self")))])])

# a second class: constructions of the two classes interleave (the interpreter keeps one long-lived object builder)
CLASS2 = ("class", "Box", [("v", "int")], [("x", "int")], [("setfield", V("self"), "v", V("x"))],
          [("val", [], "int", [("return", ("field", V("self"), "v"))]), ("put", [("x", "int")], "int", [("setfield", V("self"), "v", V("x")), ("return", ("field", V("self"), "v"))])])
NAMES = ["a", "b", "c", "d"]


def arg(rnd):
    return rnd.choice([V("in0"), V("in1"), V("in2"), I(1), I(5)])


def history(rnd, length):
    """-> statements; a, b exist from the start (b's parent is a), c / d get bound along the way"""
    live = ["a", "b"]
    has_box = [False]
    out = [("assign", "a", ("call", "Acc", [V("in0"), ("nil",)])), ("assign", "b", ("call", "Acc", [V("in1"), V("a")])),
           ("assign", "reg", ("list", [V("a"), V("b")]), "[Acc...]")]
    for _ in range(length):
        k = rnd.choice(["add", "add", "peek", "field", "setfield", "is", "alias", "me", "link", "via", "new", "newchild", "elem", "twice", "same", "other_is",
                        "chain", "chain", "opfield", "opfield_step", "peer_add", "box", "box", "spawn"])
        x = V(rnd.choice(live))
        y = V(rnd.choice(live))
        if k == "box":
            if not has_box[0]:
                has_box[0] = True
                out += [("assign", "bx", ("call", "Box", [arg(rnd)])), ("print", ("mcall", V("bx"), "val", []))]
            else:
                out += [("print", ("mcall", V("bx"), "put", [arg(rnd)])), ("assign", "bx2", ("call", "Box", [arg(rnd)])), ("print", ("is", V("bx"), V("bx2"))), ("print", ("mcall", V("bx2"), "val", []))]
        elif k == "add":
            out.append(("print", ("mcall", x, "add", [arg(rnd)])))
        elif k == "twice":
            out.append(("print", ("mcall", x, "twice", [arg(rnd)])))
        elif k == "chain":
            out.append(("print", ("mcall", x, "chain", [arg(rnd)])))
        elif k == "peer_add":
            out.append(("print", ("mcall", ("mcall", x, "peer", []), "add", [arg(rnd)])))
        elif k == "opfield":
            out.append(("opfield", x, "n", rnd.choice("+-"), arg(rnd)))
        elif k == "opfield_step":
            out.append(("opfield", ("mcall", x, "step", []), "n", "+", arg(rnd)))
        elif k == "peek":
            out.append(("print", ("mcall", x, "peek", [])))
        elif k == "field":
            out.append(("print", ("field", x, "n")))
        elif k == "setfield":
            out.append(("setfield", x, "n", arg(rnd)))
        elif k == "is":
            out.append(("print", ("is", x, y)))
        elif k == "same":
            out.append(("print", ("mcall", x, "same", [y])))
        elif k == "other_is":
            out.append(("print", ("is", ("field", x, "other"), y)))
        elif k in ("alias", "me", "new", "newchild", "elem", "spawn"):
            fresh = [n for n in NAMES if n not in live]
            if not fresh:
                out.append(("print", ("mcall", ("index", V("reg"), rnd.randint(0, 1)), "peek", [])))
                continue
            t = fresh[0]
            if k == "alias":
                e = x
            elif k == "me":
                e = ("mcall", x, "me", [])
            elif k == "spawn":
                e = ("mcall", x, "spawn", [arg(rnd)])           # a method that constructs its own class: a distinct object
            elif k == "new":
                e = ("call", "Acc", [arg(rnd), ("nil",)])
            elif k == "newchild":
                e = ("call", "Acc", [arg(rnd), x])
            else:
                e = ("index", V("reg"), rnd.randint(0, 1))
            out.append(("assign", t, e))
            live.append(t)
        elif k == "link":
            out.append(("expr", ("mcall", x, "link", [y])))
        elif k == "via":
            out.append(("print", ("mcall", x, "via", [arg(rnd)])))
    for n in live:
        out.append(("print", ("field", V(n), "n")))
    out.append(("print", ("str", "end")))
    return out


def program(seed, length, _unused=None):
    rnd = random.Random(seed)
    return [("assign", "in0", ("in", 0)), ("assign", "in1", ("in", 1)), ("assign", "in2", ("in", 2)), CLASS, CLASS2] + history(rnd, length)


def select(tier, seed):
    n = 150 if tier == "quick" else 1500
    rnd = random.Random(seed)
    items = [(rnd.randrange(1 << 30), rnd.randint(4, 15), None) for _ in range(n)]
    return items, None, 0


def describe(item):
    return "object history seed=%d length=%d" % (item[0], item[1])
