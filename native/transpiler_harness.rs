// Native harness injected into a scratch copy of `bytecode_dev_transpiler` as `#[cfg(test)] mod verif_native;`.
// For each vector (one instruction line of the human-readable form, produced by the REAL text writer): run the REAL
// transpile_file on a one-function file, then read the binary record back with the loader's record pattern and the REAL tokenizer.
//   vector line:  <id> <opcode> <hex bytes of the text line>
//   result line:  transpile <id> OK <n> <hexargs..> | ERR | BADRECORD .. | TRANSPILE-ERR | PANIC
#![allow(unused)]
use std::io::Write;

fn enhex(s: &str) -> String {
    if s.is_empty() {
        return "-".to_string();
    }
    s.chars().map(|c| format!("{:06x}", c as u32)).collect()
}

fn decode_record(bytes: &[u8], opcode: u8) -> String {
    let end = match bytes.iter().position(|b| *b == 0) {
        Some(p) => p,
        None => return "BADRECORD no-nul".to_string(),
    };
    let rec = &bytes[..=end];
    let tail_ok = &bytes[end + 1..] == b"e\0";
    if !tail_ok {
        return "BADRECORD split".to_string();
    }
    match rec {
        [ins, b' ', args @ .., 0x00] => {
            if *ins != opcode {
                return "BADRECORD opcode".to_string();
            }
            match bytecode::compilation_bridge::split_string(String::from_utf8_lossy(args).as_ref()) {
                Ok(v) => format!("OK {} {}", v.len(), v.iter().map(|s| enhex(s)).collect::<Vec<_>>().join(" ")).trim_end().to_string(),
                Err(_) => "ERR".to_string(),
            }
        }
        [ins, 0x00] => {
            if *ins != opcode { "BADRECORD opcode".to_string() } else { "OK 0".to_string() }
        }
        _ => "BADRECORD pattern".to_string(),
    }
}

fn one(dir: &std::path::Path, id: &str, opcode: u8, line: &[u8]) -> String {
    let src = dir.join(format!("v{id}.transpiled.mmm"));
    let dst = dir.join(format!("v{id}.mmm"));
    let mut text = b"function f\n".to_vec();
    text.extend_from_slice(line);
    text.extend_from_slice(b"end\n");
    std::fs::write(&src, &text).unwrap();
    let _ = std::fs::remove_file(&dst);
    if crate::transpile_file(src.to_str().unwrap(), dst.to_str().unwrap()).is_err() {
        return "TRANSPILE-ERR".to_string();
    }
    let bin = std::fs::read(&dst).unwrap_or_default();
    let Some(body) = bin.strip_prefix(b"f f\0") else { return "BADRECORD header".to_string() };
    decode_record(body, opcode)
}

#[test]
fn verif_native_run() {
    let Ok(vec_path) = std::env::var("VERIF_TRANSPILE_VECTORS") else { return };
    let out_path = std::env::var("VERIF_RESULTS").expect("VERIF_RESULTS");
    let dir = std::path::PathBuf::from(std::env::var("VERIF_TRANSPILE_DIR").expect("dir"));
    std::panic::set_hook(Box::new(|_| {}));
    let mut out = std::io::BufWriter::new(std::fs::File::create(&out_path).unwrap());
    for l in std::fs::read_to_string(vec_path).unwrap().lines() {
        let t: Vec<&str> = l.split_whitespace().collect();
        if t.len() != 3 {
            continue;
        }
        let opcode: u8 = t[1].parse().unwrap();
        let line: Vec<u8> = (0..t[2].len() / 2).map(|i| u8::from_str_radix(&t[2][2 * i..2 * i + 2], 16).unwrap()).collect();
        let id = t[0].to_string();
        let d = dir.clone();
        let r = std::panic::catch_unwind(std::panic::AssertUnwindSafe(|| one(&d, &id, opcode, &line))).unwrap_or_else(|_| "PANIC".to_string());
        writeln!(out, "transpile {} {}", t[0], r).unwrap();
    }
    out.flush().unwrap();
}
