// Foreign test library for C19 (built in place of the repository's `ffi` example crate, inside the scratch copy).
// VERIF_FFI_TAG (compile-time) distinguishes two builds of the same library.
use bytecode::BytecodePrimitive;
use bytecode::FFIReturnValue;
use bytecode::{int, raise_error};

const TAG: &str = match option_env!("VERIF_FFI_TAG") {
    Some(t) => t,
    None => "A",
};

/// prints its arguments in the order received and returns 42
#[no_mangle]
pub fn echo(args: &[BytecodePrimitive]) -> FFIReturnValue {
    let shown: Vec<String> = args.iter().map(|a| format!("{a}")).collect();
    println!("ECHO[{TAG}] n={} args=[{}]", args.len(), shown.join(","));
    FFIReturnValue::Value(int!(42))
}

/// returns its first argument unchanged (any kind)
#[no_mangle]
pub fn first(args: &[BytecodePrimitive]) -> FFIReturnValue {
    match args.first() {
        Some(a) => FFIReturnValue::Value(a.clone()),
        None => FFIReturnValue::NoValue,
    }
}

/// reports an error through the FFI error channel
#[no_mangle]
pub fn fail(_args: &[BytecodePrimitive]) -> FFIReturnValue {
    raise_error!("boom from foreign code")
}

/// prints its arguments and returns no value
#[no_mangle]
pub fn nothing(args: &[BytecodePrimitive]) -> FFIReturnValue {
    let shown: Vec<String> = args.iter().map(|a| format!("{a}")).collect();
    println!("NOTHING[{TAG}] n={} args=[{}]", args.len(), shown.join(","));
    FFIReturnValue::NoValue
}
