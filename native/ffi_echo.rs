use bytecode::BytecodePrimitive;
use bytecode::FFIReturnValue;
use bytecode::{int, raise_error};

/// prints its arguments in the order received and returns 42
#[no_mangle]
pub fn echo(args: &[BytecodePrimitive]) -> FFIReturnValue {
    let shown: Vec<String> = args.iter().map(|a| format!("{a}")).collect();
    println!("ECHO n={} args=[{}]", args.len(), shown.join(","));
    FFIReturnValue::Value(int!(42))
}

/// reports an error through the FFI error channel
#[no_mangle]
pub fn fail(_args: &[BytecodePrimitive]) -> FFIReturnValue {
    raise_error!("boom from foreign code")
}
