// Native evaluation harness, injected into a scratch copy of the `bytecode` crate as
//   #[cfg(test)] mod verif_native;   (this file copied to src/verif_native.rs, the ext file next to it)
// It evaluates the REAL operator / equality / negation / built-in kernels on concrete vectors read from
// $VERIF_VECTORS and writes one result line per vector to $VERIF_RESULTS.  Used for (a) validating the
// MIR translator against the real code and (b) replaying solver counterexamples before they are reported.
//
// vector line:   <id> <op> <kind> <hexbits> [<kind> <hexbits>] ...
// result line:   <id> OK <Kind> <hexbits> | <id> ERR | <id> PANIC
#![allow(unused)]
use crate::variables::Primitive as P;
use std::io::Write;
use std::panic::{catch_unwind, AssertUnwindSafe};

fn parse(kind: &str, hex: &str) -> P {
    if kind == "Str" {
        // hex-encoded UTF-8 bytes; "00" alone stands for the empty string
        let bytes: Vec<u8> = (0..hex.len() / 2).map(|i| u8::from_str_radix(&hex[2 * i..2 * i + 2], 16).unwrap()).collect();
        let s = String::from_utf8(bytes).expect("utf8");
        return P::Str(if s == "\0" { String::new() } else { s });
    }
    let v = u128::from_str_radix(hex, 16).expect("hex");
    match kind {
        "Int" => P::Int(v as u32 as i32),
        "BigInt" => P::BigInt(v as i128),
        "Float" => P::Float(f64::from_bits(v as u64)),
        "Byte" => P::Byte(v as u8),
        "Bool" => P::Bool(v != 0),
        "Nil" => P::Optional(None),
        "SomeInt" => P::Optional(Some(Box::new(P::Int(v as u32 as i32)))),
        "SomeBigInt" => P::Optional(Some(Box::new(P::BigInt(v as i128)))),
        "SomeFloat" => P::Optional(Some(Box::new(P::Float(f64::from_bits(v as u64))))),
        "SomeByte" => P::Optional(Some(Box::new(P::Byte(v as u8)))),
        "SomeBool" => P::Optional(Some(Box::new(P::Bool(v != 0)))),
        "SomeNil" => P::Optional(Some(Box::new(P::Optional(None)))),
        k if k.starts_with("Heap") => {
            // a HeapPrimitive::Lookup reference to a variable cell holding the inner shape
            let inner = parse(&k[4..], hex);
            let pair = crate::stack::PrimitiveFlagsPair::new(inner, crate::stack::VariableFlags::none());
            P::HeapPrimitive(crate::variables::HeapPrimitive::new_lookup_view(pair))
        }
        _ => panic!("kind {kind}"),
    }
}

fn show(p: &P) -> String {
    match p {
        P::Int(x) => format!("OK Int {:x}", *x as u32),
        P::BigInt(x) => format!("OK BigInt {:x}", *x as u128),
        P::Float(x) => {
            if x.is_nan() {
                "OK Float nan".to_string()
            } else {
                format!("OK Float {:x}", x.to_bits())
            }
        }
        P::Byte(x) => format!("OK Byte {:x}", *x),
        P::Bool(x) => format!("OK Bool {:x}", *x as u8),
        P::Str(s) => format!("OK Str {}", s.bytes().map(|b| format!("{:02x}", b)).collect::<String>()),
        P::HeapPrimitive(hp) => match hp.to_owned_primitive() {
            Ok(inner) => format!("OK Heap{}", &show(&inner)[3..]),
            Err(_) => "OK Other heap-error".to_string(),
        },
        P::Vector(v) => {
            // "OK Vector <Kind>:<bits>,<Kind>:<bits>,..." (empty vector: "OK Vector")
            let items: Vec<String> = v.0.borrow().iter().map(|p| {
                let s = show(p);
                let t: Vec<&str> = s.split_whitespace().collect();
                format!("{}:{}", t[1], t.get(2).copied().unwrap_or(""))
            }).collect();
            format!("OK Vector {}", items.join(","))
        }
        P::Optional(None) => "OK Nil 0".to_string(),
        P::Optional(Some(b)) => format!("OK Some{}", &show(b)[3..]),
        other => format!("OK Other {:?}", other.ty()),
    }
}

fn res(r: anyhow::Result<P>) -> String {
    match r {
        Ok(p) => show(&p),
        Err(_) => "ERR".to_string(),
    }
}

fn eval(op: &str, args: &[P]) -> String {
    if op.starts_with("L:") || op.starts_with("M:") || op.starts_with("X:") || op.starts_with("P:") || op.starts_with("S:") || op.starts_with("K:") || op.starts_with("E:") || op.starts_with("J:") || op.starts_with("F:") {
        // list kernels: the operand list may be empty (empty receiver, no argument)
        return verif_native_ext::eval_ext(op, args);
    }
    let a = &args[0];
    match op {
        "add" => res(a + &args[1]),
        "sub" => res(a - &args[1]),
        "mul" => res(a * &args[1]),
        "div" => res(a / &args[1]),
        "rem" => res(a % &args[1]),
        "bitand" => res(a & &args[1]),
        "bitor" => res(a | &args[1]),
        "bitxor" => res(a ^ &args[1]),
        "shl" => res(a << &args[1]),
        "shr" => res(a >> &args[1]),
        "lt" => show(&P::Bool(a < &args[1])),
        "le" => show(&P::Bool(a <= &args[1])),
        "gt" => show(&P::Bool(a > &args[1])),
        "ge" => show(&P::Bool(a >= &args[1])),
        "equals" => res(a.equals(&args[1]).map(P::Bool)),
        "negate" => {
            let mut x = a.clone();
            match x.negate() {
                Ok(()) => show(&x),
                Err(_) => "ERR".to_string(),
            }
        }
        _ => verif_native_ext::eval_ext(op, args),
    }
}

#[path = "verif_native_ext.rs"]
mod verif_native_ext;

#[test]
fn verif_native_run() {
    let vec_path = match std::env::var("VERIF_VECTORS") {
        Ok(p) => p,
        Err(_) => return,
    };
    let out_path = std::env::var("VERIF_RESULTS").expect("VERIF_RESULTS");
    std::panic::set_hook(Box::new(|_| {}));
    let text = std::fs::read_to_string(&vec_path).expect("vectors");
    let mut out = std::io::BufWriter::new(std::fs::File::create(&out_path).expect("results"));
    for line in text.lines() {
        let toks: Vec<&str> = line.split_whitespace().collect();
        if toks.len() < 2 {
            continue;
        }
        let id = toks[0];
        let op = toks[1].to_string();
        let mut args = vec![];
        let mut i = 2;
        while i + 1 < toks.len() {
            args.push(parse(toks[i], toks[i + 1]));
            i += 2;
        }
        let r = catch_unwind(AssertUnwindSafe(|| eval(&op, &args)));
        let s = match r {
            Ok(s) => s,
            Err(_) => "PANIC".to_string(),
        };
        writeln!(out, "{} {}", id, s).unwrap();
        std::mem::forget(args);
    }
    out.flush().unwrap();
}
