// Native harness injected into a scratch copy of the `compiler` crate as `#[cfg(test)] mod verif_native;` inside `crate::ast`.
// Dumps the REAL static typing tables (finite domains) to $VERIF_RESULTS:
//   cell <lhs kind> <rhs kind> <Op> <None|result kind>
//   negate <kind> <true|false>        (TypeLayout::supports_negate)
//   not <kind> <true|false>           (TypeLayout::is_boolean, the check behind unary `!`)
#![allow(unused)]
use crate::ast::{BinaryOperation as Op, ClassType, NativeType, StrWrapper, TypeLayout, TypecheckFlags};
use std::io::Write;

fn kinds() -> Vec<(&'static str, NativeType)> {
    vec![
        ("Bool", NativeType::Bool),
        ("Str", NativeType::Str(StrWrapper(None))),
        ("Str1", NativeType::Str(StrWrapper(Some(1)))),
        ("Int", NativeType::Int),
        ("BigInt", NativeType::BigInt),
        ("Float", NativeType::Float),
        ("Byte", NativeType::Byte),
    ]
}

fn ops() -> Vec<(&'static str, Op)> {
    use Op::*;
    vec![
        ("Add", Add), ("Subtract", Subtract), ("Multiply", Multiply), ("Divide", Divide), ("Modulo", Modulo),
        ("Lt", Lt), ("Gt", Gt), ("Lte", Lte), ("Gte", Gte), ("Eq", Eq), ("Neq", Neq),
        ("And", And), ("Or", Or), ("Xor", Xor), ("Unwrap", Unwrap),
        ("AddAssign", AddAssign), ("SubAssign", SubAssign), ("MulAssign", MulAssign), ("DivAssign", DivAssign), ("ModAssign", ModAssign),
        ("BinaryXor", BinaryXor), ("BinaryOr", BinaryOr), ("BinaryAnd", BinaryAnd), ("BitwiseLs", BitwiseLs), ("BitwiseRs", BitwiseRs),
        ("Is", Is),
    ]
}

const BUILTIN_NAMES: &[&str] = &[
    "pow", "powf", "sqrt", "to_int", "to_bigint", "to_byte", "to_float", "abs", "to_ascii", "fpart", "ipart", "round", "floor", "ceil",
    "to_str", "len", "substring", "contains", "index_of", "reverse", "insert", "replace", "delete", "parse_int", "parse_int_radix",
    "parse_bigint", "parse_bigint_radix", "parse_bool", "parse_float", "parse_byte", "split", "chars",
];

fn kind_name(t: &TypeLayout) -> String {
    match t {
        TypeLayout::Native(NativeType::Bool) => "Bool".into(),
        TypeLayout::Native(NativeType::Str(_)) => "Str".into(),
        TypeLayout::Native(NativeType::Int) => "Int".into(),
        TypeLayout::Native(NativeType::BigInt) => "BigInt".into(),
        TypeLayout::Native(NativeType::Float) => "Float".into(),
        TypeLayout::Native(NativeType::Byte) => "Byte".into(),
        other => format!("Other:{}", other).replace(' ', "_"),
    }
}

use crate::ast::{CompileTimeEvaluate, ConstexprEvaluation, Number, Value};
use bytecode::BytecodePrimitive as P;

fn literal(kind: &str, hex: &str) -> Number {
    let v = u128::from_str_radix(hex, 16).expect("hex");
    match kind {
        "Int" => Number::Integer((v as u32 as i32).to_string()),
        "BigInt" => Number::BigInt((v as i128).to_string()),
        "Float" => Number::Float(f64::from_bits(v as u64).to_string()),
        "Byte" => Number::Byte((v as u8).to_string()),
        "IntLit" => Number::Integer((v as i128).to_string()),
        _ => panic!("kind {kind}"),
    }
}

/// what the run time loads from the instruction the compiler emits for this literal
fn load(n: &Number) -> String {
    let (kind, r) = match n {
        Number::Integer(t) => ("Int", P::make_int(t)),
        Number::BigInt(t) => ("BigInt", P::make_bigint(t)),
        Number::Float(t) => ("Float", P::make_float(t)),
        Number::Byte(t) => ("Byte", std::panic::catch_unwind(|| P::make_byte(t)).unwrap_or_else(|_| Err(anyhow::anyhow!("panic")))),
    };
    match r {
        Ok(P::Int(x)) => format!("OK Int {:x}", x as u32),
        Ok(P::BigInt(x)) => format!("OK BigInt {:x}", x as u128),
        Ok(P::Float(x)) => if x.is_nan() { "OK Float nan".to_string() } else { format!("OK Float {:x}", x.to_bits()) },
        Ok(P::Byte(x)) => format!("OK Byte {:x}", x),
        Ok(_) => "OK Other 0".to_string(),
        Err(_) => format!("OK UNLOADABLE {}:{}", kind, n),
    }
}

/// fold `a op b` / `-a` through `impl CompileTimeEvaluate for Expr` (literal leaves), as the parser does for a literal expression
fn fold_expr(op: &str, args: &[Number]) -> String {
    use crate::ast::Expr;
    let leaf = |n: &Number| Box::new(Expr::Value(Value::Number(n.clone())));
    let e = if op == "negate" {
        Expr::UnaryMinus(leaf(&args[0]))
    } else {
        let o = match op {
            "add" => Op::Add, "sub" => Op::Subtract, "mul" => Op::Multiply, "div" => Op::Divide, "rem" => Op::Modulo,
            "shl" => Op::BitwiseLs, "shr" => Op::BitwiseRs, "bitand" => Op::BinaryAnd, "bitor" => Op::BinaryOr, "bitxor" => Op::BinaryXor,
            _ => panic!("op {op}"),
        };
        Expr::BinOp { lhs: leaf(&args[0]), op: o, rhs: leaf(&args[1]) }
    };
    match e.try_constexpr_eval() {
        Ok(ConstexprEvaluation::Owned(Value::Number(n))) => load(&n),
        Ok(ConstexprEvaluation::Owned(_)) => "OK Other 0".to_string(),
        Ok(ConstexprEvaluation::Impossible) => "DEFER".to_string(),
        Err(_) => "ERR".to_string(),
    }
}

/// literal forms other than arithmetic: `!b`, `get <lit>`, `get nil`, `(nil) or <lit>`, `(<lit>) or <lit>`
fn fold_literal_form(form: &str, args: &[Number], flag: bool) -> String {
    use crate::ast::Expr;
    let leaf = |n: &Number| Box::new(Expr::Value(Value::Number(n.clone())));
    let e = match form {
        "not" => Expr::UnaryNot(Box::new(Expr::Value(Value::Boolean(flag)))),
        "get" => Expr::UnaryUnwrap { value: leaf(&args[0]), span: Box::new("x".to_string()) },
        "getnil" => Expr::UnaryUnwrap { value: Box::new(Expr::Nil), span: Box::new("x".to_string()) },
        "ornil" => Expr::NilEval { primary: Box::new(Expr::Nil), fallback: Value::Number(args[0].clone()) },
        "orlit" => Expr::NilEval { primary: leaf(&args[0]), fallback: Value::Number(args[1].clone()) },
        _ => panic!("form {form}"),
    };
    match e.try_constexpr_eval() {
        Ok(ConstexprEvaluation::Owned(Value::Number(n))) => load(&n),
        Ok(ConstexprEvaluation::Owned(Value::Boolean(b))) => format!("OK Bool {:x}", b as u8),
        Ok(ConstexprEvaluation::Owned(_)) => "OK Other 0".to_string(),
        Ok(ConstexprEvaluation::Impossible) => "DEFER".to_string(),
        Err(_) => "ERR".to_string(),
    }
}

fn fold(op: &str, args: &[Number]) -> String {
    if let Some(o) = op.strip_prefix("lf:") {
        let mut it = o.splitn(2, ':');
        let form = it.next().unwrap();
        let flag = it.next() == Some("1");
        return fold_literal_form(form, args, flag);
    }
    if let Some(o) = op.strip_prefix("expr:") {
        return fold_expr(o, args);
    }
    let r = match op {
        "add" => &args[0] + &args[1],
        "sub" => &args[0] - &args[1],
        "mul" => &args[0] * &args[1],
        "div" => &args[0] / &args[1],
        "rem" => &args[0] % &args[1],
        "shl" => &args[0] << &args[1],
        "shr" => &args[0] >> &args[1],
        "bitand" => &args[0] & &args[1],
        "bitor" => &args[0] | &args[1],
        "bitxor" => &args[0] ^ &args[1],
        "negate" => args[0].negate().ok_or_else(|| anyhow::anyhow!("not foldable")),
        "widen" => match args[0].try_constexpr_eval() {
            Ok(ConstexprEvaluation::Owned(Value::Number(n))) => Ok(n),
            Ok(_) => Err(anyhow::anyhow!("impossible")),
            Err(e) => Err(e),
        },
        _ => panic!("op {op}"),
    };
    match r {
        Ok(n) => load(&n),
        Err(_) => "ERR".to_string(),
    }
}

fn run_fold_vectors(out: &mut impl Write) {
    let Ok(path) = std::env::var("VERIF_FOLD_VECTORS") else { return };
    std::panic::set_hook(Box::new(|_| {}));
    for line in std::fs::read_to_string(path).expect("vectors").lines() {
        let t: Vec<&str> = line.split_whitespace().collect();
        if t.len() < 2 {
            continue;
        }
        let mut args = vec![];
        let mut i = 2;
        while i + 1 < t.len() {
            args.push(literal(t[i], t[i + 1]));
            i += 2;
        }
        let op = t[1].to_string();
        let r = std::panic::catch_unwind(std::panic::AssertUnwindSafe(|| fold(&op, &args))).unwrap_or_else(|_| "PANIC".to_string());
        writeln!(out, "fold {} {}", t[0], r).unwrap();
    }
}

fn dehex(h: &str) -> String {
    if h == "-" {
        return String::new();
    }
    (0..h.len() / 6).map(|i| char::from_u32(u32::from_str_radix(&h[6 * i..6 * i + 6], 16).unwrap()).expect("scalar value")).collect()
}

fn enhex(s: &str) -> String {
    if s.is_empty() {
        return "-".to_string();
    }
    s.chars().map(|c| format!("{:06x}", c as u32)).collect()
}

/// binary path of one instruction: real writer -> record framing as in MScriptFile::get_functions -> real tokenizer
fn codec_binary(opcode: u8, args: &[String]) -> String {
    use crate::ast::CompiledItem;
    let item = CompiledItem::Instruction { id: opcode, arguments: args.to_vec().into_boxed_slice() };
    let Ok(text) = item.repr(false) else { return "WRITER-ERR".to_string() };
    decode_record(text.as_bytes(), opcode)
}

pub(crate) fn decode_record(bytes: &[u8], opcode: u8) -> String {
    // `read_until(0x00)`: the first record ends at the first NUL
    let end = match bytes.iter().position(|b| *b == 0) {
        Some(p) => p,
        None => return "BADRECORD no-nul".to_string(),
    };
    if end + 1 != bytes.len() {
        return "BADRECORD split".to_string();
    }
    let rec = &bytes[..=end];
    match rec {
        [ins, b' ', args @ .., 0x00] => {
            if *ins != opcode {
                return "BADRECORD opcode".to_string();
            }
            match bytecode::compilation_bridge::split_string(String::from_utf8_lossy(args).as_ref()) {
                Ok(v) => format!("OK {} {}", v.len(), v.iter().map(|s| enhex(s)).collect::<Vec<_>>().join(" ")).trim_end().to_string(),
                Err(_) => "ERR".to_string(),
            }
        }
        [ins, 0x00] => {
            if *ins != opcode { "BADRECORD opcode".to_string() } else { "OK 0".to_string() }
        }
        _ => "BADRECORD pattern".to_string(),
    }
}

fn run_codec_vectors(out: &mut impl Write) {
    let Ok(path) = std::env::var("VERIF_CODEC_VECTORS") else { return };
    std::panic::set_hook(Box::new(|_| {}));
    for line in std::fs::read_to_string(path).expect("vectors").lines() {
        let t: Vec<&str> = line.split_whitespace().collect();
        if t.len() < 3 {
            continue;
        }
        let opcode: u8 = t[2].parse().unwrap();
        let args: Vec<String> = t[3..].iter().map(|h| dehex(h)).collect();
        let r = std::panic::catch_unwind(std::panic::AssertUnwindSafe(|| {
            if t[1] == "binary" {
                codec_binary(opcode, &args)
            } else {
                use crate::ast::CompiledItem;
                let item = CompiledItem::Instruction { id: opcode, arguments: args.clone().into_boxed_slice() };
                match item.repr(true) {
                    Ok(text) => format!("TEXT {}", text.bytes().map(|b| format!("{:02x}", b)).collect::<String>()),
                    Err(_) => "WRITER-ERR".to_string(),
                }
            }
        }))
        .unwrap_or_else(|_| "PANIC".to_string());
        writeln!(out, "codec {} {}", t[0], r).unwrap();
    }
}


/// file-level vectors: `<id> <output path> <spec>`; spec = fn ("/" fn)*, fn = hex6(name) (";" instr)*, instr = opcode ("," hex6(arg))*.
/// Builds the CompiledItem::Function list and writes it with the REAL `perform_file_io_out` (binary form).
pub(crate) fn parse_file_spec(spec: &str) -> Vec<(String, Vec<(u8, Vec<String>)>)> {
    spec.split('/').map(|f| {
        let mut parts = f.split(';');
        let name = dehex(parts.next().unwrap());
        let ins = parts.filter(|p| !p.is_empty()).map(|i| {
            let mut t = i.split(',');
            let op: u8 = t.next().unwrap().parse().unwrap();
            (op, t.map(|h| dehex(h)).collect())
        }).collect();
        (name, ins)
    }).collect()
}

fn run_file_vectors(out: &mut impl Write) {
    let Ok(path) = std::env::var("VERIF_FILE_VECTORS") else { return };
    std::panic::set_hook(Box::new(|_| {}));
    // `perform_file_io_out` asks the global logger for a progress bar; a quiet logger, as `compile(.., verbose=false, ..)` installs
    let _ = crate::LOGGER_INSTANCE.set(crate::VerboseLogger::new(false));
    for line in std::fs::read_to_string(path).expect("vectors").lines() {
        let t: Vec<&str> = line.split_whitespace().collect();
        if t.len() < 3 {
            continue;
        }
        let r = std::panic::catch_unwind(std::panic::AssertUnwindSafe(|| {
            use crate::ast::{CompiledFunctionId, CompiledItem};
            let loc = std::sync::Arc::new(std::path::PathBuf::from(t[1]));
            let items: Vec<CompiledItem> = parse_file_spec(t[2]).into_iter().map(|(name, ins)| CompiledItem::Function {
                id: CompiledFunctionId::Custom(name),
                content: Some(ins.into_iter().map(|(op, args)| CompiledItem::Instruction { id: op, arguments: args.into_boxed_slice() }).collect()),
                location: loc.clone(),
            }).collect();
            match crate::perform_file_io_out(std::path::Path::new(t[1]), &items, true) {
                Ok(()) => "OK".to_string(),
                Err(_) => "WRITER-ERR".to_string(),
            }
        }))
        .unwrap_or_else(|_| "PANIC".to_string());
        writeln!(out, "file {} {}", t[0], r).unwrap();
    }
}

#[test]
fn verif_native_run() {
    let out_path = match std::env::var("VERIF_RESULTS") {
        Ok(p) => p,
        Err(_) => return,
    };
    let mut out = std::io::BufWriter::new(std::fs::File::create(&out_path).expect("results"));
    run_fold_vectors(&mut out);
    run_codec_vectors(&mut out);
    run_file_vectors(&mut out);
    let flags = TypecheckFlags::<&ClassType>::classless();
    for (ln, l) in kinds() {
        for (rn, r) in kinds() {
            for (on, op) in ops() {
                let res = TypeLayout::Native(l).get_output_type(&TypeLayout::Native(r), &op, &flags);
                let s = match res {
                    None => "None".to_string(),
                    Some(t) => kind_name(&t),
                };
                writeln!(out, "cell {} {} {} {}", ln, rn, on, s).unwrap();
            }
        }
        // declared result type of every built-in method name on this receiver kind
        for name in BUILTIN_NAMES {
            let recv = TypeLayout::Native(l);
            let decl = match recv.get_property_type(name) {
                None => "None".to_string(),
                Some(p) => {
                    let t: &TypeLayout = &***p;
                    match t {
                        TypeLayout::Function(f) => match f.return_type().get_type() {
                            Some(t) => t.to_string().replace(' ', ""),
                            None => "void".to_string(),
                        },
                        other => format!("NotAFunction:{}", other).replace(' ', ""),
                    }
                }
            };
            writeln!(out, "builtin {} {} {}", ln, name, decl).unwrap();
        }
        writeln!(out, "negate {} {}", ln, TypeLayout::Native(l).supports_negate()).unwrap();
        writeln!(out, "not {} {}", ln, TypeLayout::Native(l).is_boolean()).unwrap();
    }
    out.flush().unwrap();
}
