// Native harness injected into a scratch copy of the `compiler` crate as `#[cfg(test)] mod verif_native;` inside `crate::ast`.
// Dumps the REAL static typing tables (finite domains) to $VERIF_RESULTS:
//   cell <lhs kind> <rhs kind> <Op> <None|result kind>
//   negate <kind> <true|false>        (TypeLayout::supports_negate)
//   not <kind> <true|false>           (TypeLayout::is_boolean, the check behind unary `!`)
#![allow(unused)]
use crate::ast::{BinaryOperation as Op, ClassType, NativeType, StrWrapper, TypeLayout, TypecheckFlags};
use std::io::Write;

fn kinds() -> Vec<(&'static str, NativeType)> {
    vec![
        ("Bool", NativeType::Bool),
        ("Str", NativeType::Str(StrWrapper(None))),
        ("Str1", NativeType::Str(StrWrapper(Some(1)))),
        ("Int", NativeType::Int),
        ("BigInt", NativeType::BigInt),
        ("Float", NativeType::Float),
        ("Byte", NativeType::Byte),
    ]
}

fn ops() -> Vec<(&'static str, Op)> {
    use Op::*;
    vec![
        ("Add", Add), ("Subtract", Subtract), ("Multiply", Multiply), ("Divide", Divide), ("Modulo", Modulo),
        ("Lt", Lt), ("Gt", Gt), ("Lte", Lte), ("Gte", Gte), ("Eq", Eq), ("Neq", Neq),
        ("And", And), ("Or", Or), ("Xor", Xor), ("Unwrap", Unwrap),
        ("AddAssign", AddAssign), ("SubAssign", SubAssign), ("MulAssign", MulAssign), ("DivAssign", DivAssign), ("ModAssign", ModAssign),
        ("BinaryXor", BinaryXor), ("BinaryOr", BinaryOr), ("BinaryAnd", BinaryAnd), ("BitwiseLs", BitwiseLs), ("BitwiseRs", BitwiseRs),
        ("Is", Is),
    ]
}

fn kind_name(t: &TypeLayout) -> String {
    match t {
        TypeLayout::Native(NativeType::Bool) => "Bool".into(),
        TypeLayout::Native(NativeType::Str(_)) => "Str".into(),
        TypeLayout::Native(NativeType::Int) => "Int".into(),
        TypeLayout::Native(NativeType::BigInt) => "BigInt".into(),
        TypeLayout::Native(NativeType::Float) => "Float".into(),
        TypeLayout::Native(NativeType::Byte) => "Byte".into(),
        other => format!("Other:{}", other).replace(' ', "_"),
    }
}

#[test]
fn verif_native_run() {
    let out_path = match std::env::var("VERIF_RESULTS") {
        Ok(p) => p,
        Err(_) => return,
    };
    let mut out = std::io::BufWriter::new(std::fs::File::create(&out_path).expect("results"));
    let flags = TypecheckFlags::<&ClassType>::classless();
    for (ln, l) in kinds() {
        for (rn, r) in kinds() {
            for (on, op) in ops() {
                let res = TypeLayout::Native(l).get_output_type(&TypeLayout::Native(r), &op, &flags);
                let s = match res {
                    None => "None".to_string(),
                    Some(t) => kind_name(&t),
                };
                writeln!(out, "cell {} {} {} {}", ln, rn, on, s).unwrap();
            }
        }
        writeln!(out, "negate {} {}", ln, TypeLayout::Native(l).supports_negate()).unwrap();
        writeln!(out, "not {} {}", ln, TypeLayout::Native(l).is_boolean()).unwrap();
    }
    out.flush().unwrap();
}
