// Extension of the native harness: kernels reached through interpreter instructions (crate-private access).
#![allow(unused)]
use crate::context::Ctx;
use crate::function::Function;
use crate::instruction::implementations as imp;
use crate::stack::Stack;
use crate::variables::Primitive as P;
use std::borrow::Cow;
use std::cell::RefCell;
use std::rc::{Rc, Weak};

fn show(p: &P) -> String {
    super::show(p)
}

/// run one interpreter instruction on a fresh Ctx whose operand stack holds `args` (first pushed first)
fn run_instr(name: &str, iargs: &[&str], args: &[P]) -> String {
    let function = Function::new(Weak::new(), "verif".to_string(), Box::new([]));
    let stack = Rc::new(RefCell::new(Stack::new()));
    let mut ctx = Ctx::new(&function, stack, Cow::Owned(vec![]), None);
    for a in args {
        ctx.push(a.clone());
    }
    let iargs: Vec<String> = iargs.iter().map(|s| s.to_string()).collect();
    let r = match name {
        "bin_op" => imp::bin_op(&mut ctx, &iargs),
        "equ" => imp::equ(&mut ctx, &iargs),
        "neq" => imp::neq(&mut ctx, &iargs),
        "neg" => imp::neg(&mut ctx, &iargs),
        "not" => imp::not(&mut ctx, &iargs),
        "unwrap" => imp::unwrap(&mut ctx, &iargs),
        "jmp_not_nil" => imp::jmp_not_nil(&mut ctx, &iargs),
        "vec_op" => imp::vec_op(&mut ctx, &iargs),
        _ => panic!("instr {name}"),
    };
    let out = match r {
        Err(_) => "ERR".to_string(),
        Ok(()) => {
            if ctx.stack_size() != 1 {
                format!("OK Other stack{}", ctx.stack_size())
            } else {
                show(ctx.get_last_op_item().unwrap())
            }
        }
    };
    std::mem::forget(ctx);
    out
}

/// BuiltInFunction variant by its Debug name (the variant the real `Primitive::lookup` dispatched to)
fn variant_by_name(name: &str) -> Option<crate::function::BuiltInFunction> {
    use crate::function::BuiltInFunction as B;
    let all = [
        B::GenericToInt, B::GenericToBigint, B::GenericToByte, B::GenericToFloat, B::GenericAbs, B::GenericSqrt, B::GenericPow, B::GenericPowf,
        B::FloatFPart, B::FloatIPart, B::FloatRound, B::FloatFloor, B::FloatCeil, B::ByteToAscii, B::StrParseInt, B::StrParseIntRadix,
        B::StrParseBigint, B::StrParseBigintRadix, B::StrParseBool, B::StrParseFloat, B::StrParseByte, B::GenericToStr,
        B::VecMap, B::VecFilter, B::VecLen, B::VecReverse, B::VecRemove, B::VecPush, B::VecJoin, B::VecIndexOf, B::VecClear, B::VecClone,
        B::StrLen, B::StrSubstring, B::StrContains, B::StrIndexOf, B::StrReverse, B::StrInsert, B::StrReplace, B::StrDelete, B::StrSplit, B::StrChars,
    ];
    all.into_iter().find(|b| format!("{:?}", b) == name)
}

/// run a built-in method through the real `BuiltInFunction::run` (receiver and arguments on the operand stack)
fn run_builtin(method: &str, args: &[P]) -> String {
    use crate::function::BuiltInFunction as B;
    let b = match method {
        "to_int" => B::GenericToInt,
        "to_bigint" => B::GenericToBigint,
        "to_byte" => B::GenericToByte,
        "to_float" => B::GenericToFloat,
        "abs" => B::GenericAbs,
        "sqrt" => B::GenericSqrt,
        "pow" => B::GenericPow,
        "powf" => B::GenericPowf,
        "fpart" => B::FloatFPart,
        "ipart" => B::FloatIPart,
        "round" => B::FloatRound,
        "floor" => B::FloatFloor,
        "ceil" => B::FloatCeil,
        "to_ascii" => B::ByteToAscii,
        "parse_int" => B::StrParseInt,
        "parse_int_radix" => B::StrParseIntRadix,
        "parse_bigint" => B::StrParseBigint,
        "parse_bigint_radix" => B::StrParseBigintRadix,
        "parse_bool" => B::StrParseBool,
        "parse_float" => B::StrParseFloat,
        "parse_byte" => B::StrParseByte,
        other => match variant_by_name(other) {
            Some(b) => b,
            None => panic!("builtin {method}"),
        },
    };
    let function = Function::new(Weak::new(), "verif".to_string(), Box::new([]));
    let stack = Rc::new(RefCell::new(Stack::new()));
    let mut ctx = Ctx::new(&function, stack, Cow::Owned(vec![]), None);
    for a in args {
        ctx.push(a.clone());
    }
    let out = match b.run(&mut ctx) {
        Err(_) => "ERR".to_string(),
        Ok((Some(p), _)) => show(&p),
        Ok((None, _)) => "OK Other none".to_string(),
    };
    std::mem::forget(ctx);
    out
}

/// list built-ins on shared lists: op = "<Variant>:<n>:<m|self|none>"; the first n operands are the receiver's elements, the next m
/// the elements of a second list passed as argument (`self`: the receiver itself is passed), the rest are plain arguments.
/// Output: "<result> | <receiver contents afterwards> | <second list afterwards>", result of a list kind tagged same/other/fresh.
fn run_list_builtin(spec: &str, args: &[P]) -> String {
    let parts: Vec<&str> = spec.split(':').collect();
    let b = variant_by_name(parts[0]).unwrap_or_else(|| panic!("builtin {spec}"));
    let n: usize = parts[1].parse().unwrap();
    let recv = crate::GcVector::new(args[..n].to_vec());
    let (other, rest): (Option<crate::GcVector>, &[P]) = match parts[2] {
        "none" => (None, &args[n..]),
        "self" => (Some(recv.clone()), &args[n..]),
        m => {
            let m: usize = m.parse().unwrap();
            (Some(crate::GcVector::new(args[n..n + m].to_vec())), &args[n + m..])
        }
    };
    let function = Function::new(Weak::new(), "verif".to_string(), Box::new([]));
    let stack = Rc::new(RefCell::new(Stack::new()));
    let mut ctx = Ctx::new(&function, stack, Cow::Owned(vec![]), None);
    ctx.push(P::Vector(recv.clone()));
    if let Some(o) = &other {
        ctx.push(P::Vector(o.clone()));
    }
    for a in rest {
        ctx.push(a.clone());
    }
    let items = |v: &crate::GcVector| v.0.borrow().iter().map(item).collect::<Vec<_>>().join(",");
    let res = match &b.run(&mut ctx) {
        Err(_) => "ERR".to_string(),
        Ok((None, _)) => "OK none".to_string(),
        Ok((Some(P::Vector(v)), _)) => {
            let tag = if gc::Gc::ptr_eq(&v.0, &recv.0) {
                "same"
            } else if other.as_ref().is_some_and(|o| gc::Gc::ptr_eq(&v.0, &o.0)) {
                "other"
            } else {
                "fresh"
            };
            format!("OK Vector:{tag}:{}", items(&v))
        }
        Ok((Some(p), _)) => format!("OK {}", item(p)),
    };
    let out = format!("{res} | {} | {}", items(&recv), other.as_ref().map(items).unwrap_or_default());
    std::mem::forget(ctx);
    out
}

/// list.map / list.filter: op = "<Variant>:<n>"; the first n operands are the receiver's elements, the following n+1 the values the
/// (fake) callback returns in turn.  The callback bridge is driven exactly like Function::run drives it.
/// Output: "<result> | <receiver contents afterwards> | calls=<arguments of each callback invocation>"
fn run_bridge_builtin(spec: &str, args: &[P]) -> String {
    use crate::function::{PrimitiveFunction, ReturnValue};
    let parts: Vec<&str> = spec.split(':').collect();
    let b = variant_by_name(parts[0]).unwrap_or_else(|| panic!("builtin {spec}"));
    let n: usize = parts[1].parse().unwrap();
    let recv = crate::GcVector::new(args[..n].to_vec());
    let rets = &args[n..];
    let function = Function::new(Weak::new(), "verif".to_string(), Box::new([]));
    let stack = Rc::new(RefCell::new(Stack::new()));
    let mut ctx = Ctx::new(&function, stack, Cow::Owned(vec![]), None);
    ctx.push(P::Vector(recv.clone()));
    // the callback is a closure: it carries a (here empty) map of captured variables that every invocation must receive
    ctx.push(P::Function(PrimitiveFunction::new("verif.mmm#__fn0".to_string(), Some(crate::stack::VariableMapping::default()))));
    let items = |v: &[P]| v.iter().map(item).collect::<Vec<_>>().join(",");
    let contents = |v: &crate::GcVector| items(&v.0.borrow());
    let mut calls: Vec<String> = vec![];
    let show_vec = |v: &crate::GcVector| format!("OK Vector:{}:{}", if gc::Gc::ptr_eq(&v.0, &recv.0) { "same" } else { "fresh" }, contents(v));
    let head = match b.run(&mut ctx) {
        Err(_) => "ERR".to_string(),
        Ok((Some(P::Vector(ref v)), None)) => show_vec(v),
        Ok((Some(ref p), None)) => format!("OK {}", item(p)),
        Ok((None, None)) => "OK none".to_string(),
        Ok((_, Some(bridge))) => {
            let mut i = 0;
            let mut failed = false;
            loop {
                let req = match bridge.wait_for() {
                    Ok(r) => r,
                    Err(_) => {
                        failed = true;
                        break;
                    }
                };
                let dest = match &req.destination {
                    crate::instruction::JumpRequestDestination::Standard(p) if p == "verif.mmm#__fn0" => "cb",
                    _ => "other",
                };
                calls.push(format!("{}@{}{}", items(&req.arguments), dest, if req.callback_state.is_some() { "+captured" } else { "" }));
                let rv = ReturnValue::Value(rets[i].clone());
                i += 1;
                match bridge.then(rv) {
                    Ok(true) => continue,
                    Ok(false) => break,
                    Err(_) => {
                        failed = true;
                        break;
                    }
                }
            }
            if failed {
                "ERR".to_string()
            } else {
                match bridge.finish() {
                    Ok(Some(P::Vector(ref v))) => show_vec(v),
                    Ok(Some(ref p)) => format!("OK {}", item(p)),
                    Ok(None) => "OK none".to_string(),
                    Err(_) => "ERR".to_string(),
                }
            }
        }
    };
    let out = format!("{head} | {} | calls={}", contents(&recv), calls.join(";"));
    std::mem::forget(ctx);
    out
}

/// variable-scope kernels on a REAL call stack.  spec = "<op>:<frames>:<binds>[:<extra>]": frames over M/F/I/W (module, function,
/// `<if>`, `<while>` frame), binds = 0/1 per frame (is `x` bound there); frame 0 also binds `y`.  Operands: for every binding in
/// frame order (x before y) an Int value and a Byte of flags, then the operation's own operands.
/// Output: "<result> ; f0{x=<v>/<flags>,..} f1{..} .." - cell identity is shown by writing sentinels through returned handles.
fn run_scope_kernel(spec: &str, args: &[P]) -> String {
    use crate::stack::{PrimitiveFlagsPair, VariableFlags};
    let parts: Vec<&str> = spec.split(':').collect();
    let (opname, frames, binds) = (parts[0], parts[1], parts[2]);
    let label = |c: char| match c {
        'M' => "m#__module__",
        'F' => "m#f",
        'I' => "<if>",
        _ => "<while>",
    };
    let mut st = Stack::new();
    let mut k = 0;
    for (i, (c, b)) in frames.chars().zip(binds.chars()).enumerate() {
        st.extend(Cow::Borrowed(label(c)));
        let mut names = vec![];
        if b == '1' {
            names.push("x");
        }
        if i == 0 {
            names.push("y");
        }
        for n in names {
            let P::Byte(fl) = args[k + 1] else { panic!("flags") };
            st.register_variable_local(n.to_string(), args[k].clone(), VariableFlags(fl)).unwrap();
            k += 2;
        }
    }
    let rest = &args[k..];
    let stack = Rc::new(RefCell::new(st));
    let show_pair = |p: &PrimitiveFlagsPair| format!("{}/{}", item(&p.primitive()), p.flags().bits());
    let dump = |stack: &Rc<RefCell<Stack>>| -> String {
        // frames can only be inspected from the top: pop them one by one
        let mut out = vec![];
        let mut s = stack.borrow_mut();
        while s.size() > 0 {
            let mut ents: Vec<String> = s.get_frame_variables().unwrap().iter().map(|(n, p)| format!("{n}={}", show_pair(p))).collect();
            ents.sort();
            out.push(format!("{{{}}}", ents.join(",")));
            s.pop();
        }
        out.reverse();
        out.iter().enumerate().map(|(i, e)| format!("f{i}{e}")).collect::<Vec<_>>().join(" ")
    };
    let head = match opname {
        "assign" => {
            let r = stack.borrow_mut().register_variable(Cow::Owned("x".to_string()), rest[0].clone());
            if r.is_ok() { "OK".to_string() } else { "ERR".to_string() }
        }
        "find" => match stack.borrow().find_name("x") {
            Some(h) => {
                h.set_primitive(P::Int(777777));
                "SOME".to_string()
            }
            None => "NONE".to_string(),
        },
        "extend" => {
            stack.borrow_mut().extend(Cow::Borrowed("m#g"));
            "OK".to_string()
        }
        "update" | "get" => {
            // the captured variables of a closure: a mapping that shares the module frame's cells
            let mapping = {
                let mut s2 = Stack::new();
                s2.extend(Cow::Borrowed("tmp"));
                let s = stack.borrow();
                let _ = &s;
                drop(s);
                // rebuild from the bottom frame: find_name reaches it only if no inner frame shadows, so read it by popping a copy
                crate::stack::VariableMapping::default()
            };
            let _ = mapping;
            "UNSUPPORTED".to_string()
        }
        "mkfn" => {
            let function = Function::new(Weak::new(), "verif".to_string(), Box::new([]));
            let mut ctx = Ctx::new(&function, stack.clone(), Cow::Owned(vec![]), None);
            let mut iargs = vec!["p#f".to_string()];
            if parts.len() > 3 && !parts[3].is_empty() {
                iargs.extend(parts[3].split(',').map(|s| s.to_string()));
            }
            let r = imp::make_function(&mut ctx, &iargs);
            let h = match r {
                Err(_) => "ERR".to_string(),
                Ok(()) => match ctx.pop() {
                    Some(P::Function(ref f)) => match f.callback_state() {
                        None => format!("OK location={} closure=0", f.location()),
                        Some(m) => {
                            let mut names: Vec<String> = m.iter().map(|(n, _)| n.clone()).collect();
                            names.sort();
                            for (i, n) in names.iter().enumerate() {
                                let _ = m.update(n, P::Int(1001 + i as i32));
                            }
                            format!("OK location={} closure=1 names={}", f.location(), names.join(","))
                        }
                    },
                    ref other => format!("OK Other:{other:?}"),
                },
            };
            std::mem::forget(ctx);
            h
        }
        other => panic!("scope op {other}"),
    };
    format!("{head} ; {}", dump(&stack))
}

/// object kernels on REAL objects.  Operands: values of the fields f, g of object a (and of object b where one is needed), then
/// the operation's own operands.  Field cells are created with empty flags.
fn run_object_kernel(spec: &str, args: &[P]) -> String {
    use crate::stack::{PrimitiveFlagsPair, VariableFlags, VariableMapping};
    use crate::variables::Object;
    let mapping = |f: &P, g: &P| -> VariableMapping {
        let mut m = std::collections::HashMap::new();
        m.insert("f".to_string(), PrimitiveFlagsPair::new(f.clone(), VariableFlags::none()));
        m.insert("g".to_string(), PrimitiveFlagsPair::new(g.clone(), VariableFlags::none()));
        m.into()
    };
    let fields = |o: &Object| -> String {
        format!("f={},g={}", item(&o.get_property("f", false).unwrap().primitive()), item(&o.get_property("g", false).unwrap().primitive()))
    };
    let new_ctx_run = |f: &dyn Fn(&mut Ctx) -> String| -> String {
        let function = Function::new(Weak::new(), "verif".to_string(), Box::new([]));
        let stack = Rc::new(RefCell::new(Stack::new()));
        let mut ctx = Ctx::new(&function, stack, Cow::Owned(vec![]), None);
        let out = f(&mut ctx);
        std::mem::forget(ctx);
        out
    };
    match spec {
        "is:alias" | "is:other" | "is:build" => {
            let a = Object::new("C".to_string(), mapping(&args[0], &args[1]));
            let b = match spec {
                "is:alias" => a.clone(),
                "is:other" => Object::new("C".to_string(), mapping(&args[0], &args[1])),
                _ => {
                    // two builds from one builder state
                    let mut bld = crate::variables::ObjectBuilder::new();
                    let m = mapping(&args[0], &args[1]);
                    let x = bld.name("C".to_string()).object_variables(VariableMapping::clone(&m)).build();
                    let y = bld.name("C".to_string()).object_variables(VariableMapping::clone(&m)).build();
                    return match P::Object(x).runtime_addr_check(&P::Object(y)) {
                        Ok(p) => format!("OK {}", item(&p)),
                        Err(_) => "ERR".to_string(),
                    };
                }
            };
            match P::Object(a).runtime_addr_check(&P::Object(b)) {
                Ok(p) => format!("OK {}", item(&p)),
                Err(_) => "ERR".to_string(),
            }
        }
        "construct-twice" => {
            // two constructor calls in a row through one builder, each with its own (equal-valued) variables
            let mut bld = crate::variables::ObjectBuilder::new();
            let x = bld.name("C".to_string()).object_variables(mapping(&args[0], &args[1])).build();
            let y = bld.name("C".to_string()).object_variables(mapping(&args[0], &args[1])).build();
            // write through the second object only
            let head = new_ctx_run(&|ctx: &mut Ctx| {
                ctx.push(P::Object(y.clone()));
                if imp::lookup(ctx, &["f".to_string()]).is_err() {
                    return "ERR".to_string();
                }
                ctx.push(args[2].clone());
                match imp::ptr_mut(ctx, &[]) {
                    Ok(()) => "OK".to_string(),
                    Err(_) => "ERR".to_string(),
                }
            });
            let same = matches!(P::Object(x.clone()).runtime_addr_check(&P::Object(y.clone())), Ok(P::Bool(true)));
            format!("{head} same={} | {} | {}", same as u8, fields(&x), fields(&y))
        }
        "relist" => {
            // a field holding list L1 = [a] is assigned list L2 = [b]; then 99 is pushed through L2: the field must show it
            let l1 = crate::GcVector::new(vec![args[0].clone()]);
            let l2 = crate::GcVector::new(vec![args[1].clone()]);
            let mut m = std::collections::HashMap::new();
            m.insert("f".to_string(), PrimitiveFlagsPair::new(P::Vector(l1.clone()), VariableFlags::none()));
            m.insert("g".to_string(), PrimitiveFlagsPair::new(P::Int(0), VariableFlags::none()));
            let a = Object::new("C".to_string(), m.into());
            let head = new_ctx_run(&|ctx: &mut Ctx| {
                ctx.push(P::Object(a.clone()));
                if imp::lookup(ctx, &["f".to_string()]).is_err() {
                    return "ERR".to_string();
                }
                ctx.push(P::Vector(l2.clone()));
                match imp::ptr_mut(ctx, &[]) {
                    Ok(()) => "OK".to_string(),
                    Err(_) => "ERR".to_string(),
                }
            });
            l2.0.borrow_mut().push(P::Int(99));
            let held = a.get_property("f", false).unwrap();
            let shown = match &*held.primitive() {
                P::Vector(v) => v.0.borrow().iter().map(item).collect::<Vec<_>>().join(","),
                other => format!("{other:?}"),
            };
            format!("{head} | f=[{shown}]")
        }
        "write:f" | "write:g" | "read:zz" => {
            // through an ALIAS: look the field up, write the last operand through the pointer; observe through the original
            let a = Object::new("C".to_string(), mapping(&args[0], &args[1]));
            let other = Object::new("C".to_string(), mapping(&args[0], &args[1]));
            let alias = a.clone();
            let field = &spec[spec.len() - 1..];
            let field = if spec == "read:zz" { "zz" } else { field };
            let head = new_ctx_run(&|ctx: &mut Ctx| {
                ctx.push(P::Object(alias.clone()));
                if imp::lookup(ctx, &[field.to_string()]).is_err() {
                    return "ERR".to_string();
                }
                ctx.push(args[2].clone());
                match imp::ptr_mut(ctx, &[]) {
                    Ok(()) => "OK".to_string(),
                    Err(_) => "ERR".to_string(),
                }
            });
            format!("{head} | {} | {}", fields(&a), fields(&other))
        }
        other => panic!("object op {other}"),
    }
}

fn item(p: &P) -> String {
    // "<Kind>:<hexbits>" in the vocabulary of the vector files (Nil, Some<K>, plain kinds)
    let s = show(p);
    let t: Vec<&str> = s.split_whitespace().collect();
    format!("{}:{}", t[1], t[2])
}

/// optional-value kernels: full observable effect = operand stack, stored local, jump signal
fn run_optional(ins: &str, iarg: Option<&str>, args: &[P]) -> String {
    use crate::function::InstructionExitState as X;
    let function = Function::new(Weak::new(), "verif".to_string(), Box::new([]));
    let stack = Rc::new(RefCell::new(Stack::new()));
    stack.borrow_mut().extend(Cow::Borrowed("verif"));
    let mut ctx = Ctx::new(&function, stack, Cow::Owned(vec![]), None);
    // "<name>:existing": the target variable already holds a present value before the instruction runs
    let (iarg, existing) = match iarg {
        Some(a) if a.ends_with(":existing") => (Some(&a[..a.len() - 9]), true),
        other => (other, false),
    };
    if existing {
        let _ = ctx.register_variable_local(iarg.unwrap().to_string(), P::Int(7));
    }
    for a in args {
        ctx.push(a.clone());
    }
    let iargs: Vec<String> = iarg.iter().map(|s| s.to_string()).collect();
    let r = match ins {
        "equ" => imp::equ(&mut ctx, &iargs),
        "neq" => imp::neq(&mut ctx, &iargs),
        "unwrap" => imp::unwrap(&mut ctx, &iargs),
        "unwrap_into" => imp::unwrap_into(&mut ctx, &iargs),
        "jmp_not_nil" => imp::jmp_not_nil(&mut ctx, &iargs),
        _ => panic!("optional instr {ins}"),
    };
    let out = match r {
        Err(_) => "ERR".to_string(),
        Ok(()) => {
            let mut parts = vec!["STACK".to_string()];
            for p in ctx.get_local_operating_stack().iter() {
                parts.push(item(p));
            }
            if ins == "unwrap_into" {
                if let Ok(pair) = ctx.load_local(iarg.unwrap()) {
                    parts.push(format!("STORE {} {}", iarg.unwrap(), item(&pair.primitive())));
                }
            }
            match ctx.poll() {
                X::Goto(n) => parts.push(format!("SIGNAL Goto:{}", n)),
                X::NoExit => {}
                _ => parts.push("SIGNAL Other:0".to_string()),
            }
            parts.join(" ")
        }
    };
    std::mem::forget(ctx);
    out
}

/// finite opcode table: "<id>=<mnemonic>><id the mnemonic maps back to>" for every opcode that has a mnemonic
fn opcode_table() -> String {
    use crate::compilation_bridge::{raw_byte_instruction_to_string_representation as to_name, string_instruction_representation_to_byte as to_id};
    let mut parts = vec![];
    for id in 0..=255u8 {
        if let Some(name) = to_name(id) {
            let back = to_id(&name).map(|b| b.to_string()).unwrap_or_else(|| "none".to_string());
            parts.push(format!("{}={}>{}", id, name.replace(' ', "<SP>"), back));
        }
    }
    format!("OK Other {}", parts.join(","))
}

/// which built-in each method name resolves to on a receiver of the given kind (Primitive::lookup): "name=Variant,.."
fn lookup_table(recv: &P) -> String {
    const NAMES: &[&str] = &[
        "pow", "powf", "sqrt", "to_int", "to_bigint", "to_byte", "to_float", "abs", "to_ascii", "fpart", "ipart", "round", "floor", "ceil",
        "to_str", "len", "substring", "contains", "index_of", "reverse", "insert", "replace", "delete", "parse_int", "parse_int_radix",
        "parse_bigint", "parse_bigint_radix", "parse_bool", "parse_float", "parse_byte", "split", "chars",
    ];
    let mut parts = vec![];
    for name in NAMES {
        let r = match recv.clone().lookup(name) {
            Ok(Ok(pair)) => match &*pair.primitive() {
                P::BuiltInFunction(b) => format!("{:?}", **b),
                _ => "NotABuiltin".to_string(),
            },
            _ => "None".to_string(),
        };
        parts.push(format!("{}={}", name, r));
    }
    format!("OK Other {}", parts.join(","))
}

/// `x op= y` through the real `bin_op_assign <sym>= x` instruction: x is a registered variable, y is on the operand stack
fn run_assign(sym: &str, args: &[P]) -> String {
    let function = Function::new(Weak::new(), "verif".to_string(), Box::new([]));
    let stack = Rc::new(RefCell::new(Stack::new()));
    stack.borrow_mut().extend(Cow::Borrowed("verif"));
    let mut ctx = Ctx::new(&function, stack, Cow::Owned(vec![]), None);
    if ctx.register_variable(Cow::Borrowed("x"), args[0].clone()).is_err() {
        return "ERR".to_string();
    }
    ctx.push(args[1].clone());
    let iargs = vec![format!("{sym}="), "x".to_string()];
    let out = match imp::bin_op_assign(&mut ctx, &iargs) {
        Err(_) => "ERR".to_string(),
        Ok(()) => {
            let top = ctx.get_last_op_item().map(show).unwrap_or_else(|| "OK Other empty".to_string());
            let var = ctx.load_variable("x").map(|p| show(&p.primitive())).unwrap_or_else(|| "OK Other novar".to_string());
            if ctx.stack_size() == 1 && top == var { top } else { format!("OK Other stack{}:{}!={}", ctx.stack_size(), top.replace(' ', "_"), var.replace(' ', "_")) }
        }
    };
    std::mem::forget(ctx);
    out
}

// ---- C04 file structure: `F:load:<hex(path)>` dumps the function table the REAL loader builds from a file;
// `F:build:<spec>` dumps the table the REAL in-memory packaging (MScriptFileBuilder::add_function) builds.
// dump = label entries sorted by label, joined by "/": hex6(label);opcode,hex6(arg),..;opcode..
fn f_hex6(s: &str) -> String {
    if s.is_empty() { "-".to_string() } else { s.chars().map(|c| format!("{:06x}", c as u32)).collect() }
}
fn f_dehex6(h: &str) -> String {
    if h == "-" { return String::new(); }
    (0..h.len() / 6).map(|i| char::from_u32(u32::from_str_radix(&h[6 * i..6 * i + 6], 16).unwrap()).unwrap()).collect()
}
fn f_dump(file: &std::rc::Rc<crate::file::MScriptFile>) -> String {
    let Some(fs) = file.get_functions_ref() else { return "NOFUNCTIONS".to_string() };
    let mut names: Vec<String> = fs.map.keys().cloned().collect();
    names.sort();
    let parts: Vec<String> = names.iter().map(|n| {
        let f = fs.map.get(n).unwrap();
        let mut s = format!("{}:{}", f_hex6(n), f_hex6(f.name()));
        for ins in f.verif_instructions().iter() {
            s.push(';');
            s.push_str(&ins.id.to_string());
            for a in ins.arguments.iter() {
                s.push(',');
                s.push_str(&f_hex6(a));
            }
        }
        s
    }).collect();
    format!("OK {}", if parts.is_empty() { "EMPTY".to_string() } else { parts.join("/") })
}
fn run_file_kernel(rest: &str) -> String {
    if let Some(h) = rest.strip_prefix("load:") {
        let path: String = (0..h.len() / 2).map(|i| u8::from_str_radix(&h[2 * i..2 * i + 2], 16).unwrap() as char).collect();
        return match crate::file::MScriptFile::open(std::rc::Rc::new(path)) {
            Ok(f) => { let s = f_dump(&f); std::mem::forget(f); s }
            Err(_) => "ERR".to_string(),
        };
    }
    if let Some(spec) = rest.strip_prefix("build:") {
        let mut b = crate::file::MScriptFileBuilder::new("mem.mmm".to_string());
        for f in spec.split('/') {
            let mut parts = f.split(';');
            let name = f_dehex6(parts.next().unwrap());
            let ins: Vec<crate::instruction::Instruction> = parts.filter(|p| !p.is_empty()).map(|i| {
                let mut t = i.split(',');
                let op: u8 = t.next().unwrap().parse().unwrap();
                let args: Vec<String> = t.map(f_dehex6).collect();
                crate::instruction::Instruction::new(op, args.into_boxed_slice())
            }).collect();
            b.add_function(name, ins.into_boxed_slice());
        }
        let f = b.build();
        let s = f_dump(&f);
        std::mem::forget(f);
        return s;
    }
    "BADOP".to_string()
}

pub fn eval_ext(op: &str, args: &[P]) -> String {
    if let Some(rest) = op.strip_prefix("F:") {
        return run_file_kernel(rest);
    }
    if let Some(sym) = op.strip_prefix("A:") {
        let s = match sym { "add" => "+", "sub" => "-", "mul" => "*", "div" => "/", "rem" => "%", _ => panic!("assign op {sym}") };
        return run_assign(s, args);
    }
    if op == "T:lookup" {
        return lookup_table(&args[0]);
    }
    if op == "T:opcodes" {
        return opcode_table();
    }
    if let Some(rest) = op.strip_prefix("O:") {
        let mut it = rest.splitn(2, ':');
        let ins = it.next().unwrap();
        return run_optional(ins, it.next(), args);
    }
    if let Some(m) = op.strip_prefix("B:") {
        return run_builtin(m, args);
    }
    if let Some(rest) = op.strip_prefix("J:") {
        return run_object_kernel(rest, args);
    }
    if let Some(rest) = op.strip_prefix("K:") {
        return run_scope_kernel(rest, args);
    }
    if op == "S:render" {
        // the real call stack with the given labels (outermost first), rendered by its Display impl
        let mut st = Stack::new();
        for a in args {
            if let P::Str(l) = a {
                st.extend(Cow::Owned(l.clone()));
            }
        }
        let text = format!("{st}");
        return format!("OK {}", text.bytes().map(|b| format!("{:02x}", b)).collect::<String>());
    }
    if let Some(nn) = op.strip_prefix("S:call-remove:") {
        // `call` with the built-in list.remove on top of the operand stack; the call stack has one frame ("verif") before
        let n: usize = nn.parse().unwrap();
        let recv = crate::GcVector::new(args[..n].to_vec());
        let function = Function::new(Weak::new(), "verif".to_string(), Box::new([]));
        let stack = Rc::new(RefCell::new(Stack::new()));
        stack.borrow_mut().extend(Cow::Borrowed("verif"));
        let mut ctx = Ctx::new(&function, stack.clone(), Cow::Owned(vec![]), None);
        ctx.push(P::Vector(recv.clone()));
        ctx.push(args[n].clone());
        ctx.push(P::BuiltInFunction(crate::NonSweepingBuiltInFunction(crate::function::BuiltInFunction::VecRemove)));
        let r = imp::call(&mut ctx, &[]);
        let depth = stack.borrow().size();
        let top_is_native = format!("{}", stack.borrow()).lines().next().map(|l| l.contains("<native code>")).unwrap_or(false);
        let out = format!("{} depth={} native_on_top={}", if r.is_ok() { "OK" } else { "ERR" }, depth, top_is_native as u8);
        std::mem::forget(ctx);
        return out;
    }
    if let Some(rest) = op.strip_prefix("E:") {
        // list equality: "<n>:<m>": the first n operands are list a, the next m list b; the real Primitive::equals
        let parts: Vec<&str> = rest.split(':').collect();
        let n: usize = parts[0].parse().unwrap();
        let mut a = P::Vector(crate::GcVector::new(args[..n].to_vec()));
        let mut b = P::Vector(crate::GcVector::new(args[n..].to_vec()));
        if parts.len() > 2 && parts[2] == "nested" {
            a = P::Vector(crate::GcVector::new(vec![a]));
            b = P::Vector(crate::GcVector::new(vec![b]));
        }
        return match a.equals(&b) {
            Ok(r) => format!("OK Bool:{}", r as u8),
            Err(_) => "ERR".to_string(),
        };
    }
    if let Some(rest) = op.strip_prefix("P:") {
        // `a[k] op= v`: op = "<op>:<n>:<k>"; the first n operands are the list's elements, the last one is v
        let parts: Vec<&str> = rest.split(':').collect();
        let n: usize = parts[1].parse().unwrap();
        let k: usize = parts[2].parse().unwrap();
        let recv = crate::GcVector::new(args[..n].to_vec());
        let function = Function::new(Weak::new(), "verif".to_string(), Box::new([]));
        let stack = Rc::new(RefCell::new(Stack::new()));
        let mut ctx = Ctx::new(&function, stack, Cow::Owned(vec![]), None);
        ctx.push(P::HeapPrimitive(crate::variables::HeapPrimitive::new_array_view(recv.clone(), k)));
        ctx.push(args[n].clone());
        let r = imp::bin_op_assign(&mut ctx, &[parts[0].to_string()]);
        let items = recv.0.borrow().iter().map(item).collect::<Vec<_>>().join(",");
        let out = match r {
            Err(_) => format!("ERR | {items}"),
            Ok(()) => {
                if ctx.stack_size() != 1 {
                    format!("OK Other:stack{} | {items}", ctx.stack_size())
                } else {
                    format!("OK {} | {items}", item(ctx.get_last_op_item().unwrap()))
                }
            }
        };
        std::mem::forget(ctx);
        return out;
    }
    if let Some(nn) = op.strip_prefix("X:") {
        // list indexing with a local variable: the first n operands are the list's elements, the last one becomes `i`
        let n: usize = nn.parse().unwrap();
        let recv = crate::GcVector::new(args[..n].to_vec());
        let function = Function::new(Weak::new(), "verif".to_string(), Box::new([]));
        let stack = Rc::new(RefCell::new(Stack::new()));
        stack.borrow_mut().extend(Cow::Borrowed("verif"));
        let mut ctx = Ctx::new(&function, stack, Cow::Owned(vec![]), None);
        let _ = ctx.register_variable_local("i".to_string(), args[n].clone());
        ctx.push(P::Vector(recv.clone()));
        let r = imp::vec_op(&mut ctx, &["[i]".to_string()]);
        let out = match r {
            Err(_) => "ERR".to_string(),
            Ok(()) => {
                if ctx.stack_size() != 1 {
                    format!("OK Other stack{}", ctx.stack_size())
                } else {
                    show(ctx.get_last_op_item().unwrap())
                }
            }
        };
        std::mem::forget(ctx);
        return out;
    }
    if let Some(iarg) = op.strip_prefix("W:") {
        // indexing with a local variable: the LAST operand becomes the variable `i`, the rest is the operand stack
        let function = Function::new(Weak::new(), "verif".to_string(), Box::new([]));
        let stack = Rc::new(RefCell::new(Stack::new()));
        stack.borrow_mut().extend(Cow::Borrowed("verif"));
        let mut ctx = Ctx::new(&function, stack, Cow::Owned(vec![]), None);
        let (last, rest) = args.split_last().unwrap();
        let _ = ctx.register_variable_local("i".to_string(), last.clone());
        for a in rest {
            ctx.push(a.clone());
        }
        let r = imp::vec_op(&mut ctx, &[iarg.to_string()]);
        let out = match r {
            Err(_) => "ERR".to_string(),
            Ok(()) => {
                if ctx.stack_size() != 1 {
                    format!("OK Other stack{}", ctx.stack_size())
                } else {
                    show(ctx.get_last_op_item().unwrap())
                }
            }
        };
        std::mem::forget(ctx);
        return out;
    }
    if let Some(iarg) = op.strip_prefix("V:") {
        return run_instr("vec_op", &[iarg], args);
    }
    if let Some(rest) = op.strip_prefix("M:") {
        return run_bridge_builtin(rest, args);
    }
    if let Some(rest) = op.strip_prefix("L:") {
        return run_list_builtin(rest, args);
    }
    if let Some(sym) = op.strip_prefix("I:") {
        return match sym {
            "equals" => run_instr("equ", &[], args),
            "nequals" => run_instr("neq", &[], args),
            "negate" => run_instr("neg", &[], args),
            "not" => run_instr("not", &[], args),
            "add" => run_instr("bin_op", &["+"], args),
            "sub" => run_instr("bin_op", &["-"], args),
            "mul" => run_instr("bin_op", &["*"], args),
            "div" => run_instr("bin_op", &["/"], args),
            "rem" => run_instr("bin_op", &["%"], args),
            "bitand" => run_instr("bin_op", &["&"], args),
            "bitor" => run_instr("bin_op", &["|"], args),
            "bitxor" => run_instr("bin_op", &["xor"], args),
            "shl" => run_instr("bin_op", &["<<"], args),
            "shr" => run_instr("bin_op", &[">>"], args),
            "lt" => run_instr("bin_op", &["<"], args),
            "le" => run_instr("bin_op", &["<="], args),
            "gt" => run_instr("bin_op", &[">"], args),
            "ge" => run_instr("bin_op", &[">="], args),
            "eqsym" => run_instr("bin_op", &["="], args),
            "and" => run_instr("bin_op", &["&&"], args),
            "or" => run_instr("bin_op", &["||"], args),
            "bxor" => run_instr("bin_op", &["^"], args),
            _ => panic!("unknown instruction-level op {sym}"),
        };
    }
    panic!("unknown op {op}")
}
