// Extension point of the native harness: kernels that need crate-private access (built-ins, instructions).
#![allow(unused)]
use crate::variables::Primitive as P;

pub fn eval_ext(op: &str, args: &[P]) -> String {
    panic!("unknown op {op}")
}
