#!/bin/bash
# regenerate /verif/evidence/*.json from the registered quick commands on the CURRENT (clean) /repo and validate them
# usage: regen_evidence.sh [parallelism, default 4]
cd /verif || exit 1
git -C /repo diff --quiet || { echo "/repo has uncommitted changes"; exit 3; }
unset VERIF_EVIDENCE_DIR VERIF_REPO
P=${1:-4}
mkdir -p /tmp/wt
IDS=$(python3-vt -c "import json; print(' '.join(c['property_id'] for c in json.load(open('MANIFEST.json'))['checks']))")
one() {
  s=$(date +%s)
  bin/check $1 --tier quick > /tmp/wt/regen_$1.out 2> /tmp/wt/regen_$1.err
  rc=$?
  e=$(date +%s)
  nv=$(grep -c '^VIOLATION' /tmp/wt/regen_$1.out)
  echo "$1 exit=$rc violations=$nv $((e-s))s  $(tail -1 /tmp/wt/regen_$1.err | cut -c1-150)"
  [ "$rc" = 0 ]
}
export -f one
FAIL=0
echo $IDS | tr ' ' '\n' | xargs -P $P -I{} bash -c 'one {}' || FAIL=1
python3-vt - <<'PY'
import json, jsonschema, glob
sch = json.load(open('/root/.vp/EVIDENCE.schema.json'))
for p in sorted(glob.glob('/verif/evidence/*.json')):
    e = json.load(open(p))
    jsonschema.validate(e, sch)
    c = e['coverage']
    ok = (c.get('obligations') == c.get('discharged')) if e['level'] == 'proof' else True
    print(p.split('/')[-1], e['tier'], e['level'], c.get('obligations'), c.get('discharged'), 'OK' if ok else 'MISMATCH')
PY
exit $FAIL
