#!/bin/bash
# regenerate /verif/evidence/*.json from the registered quick commands on the CURRENT (clean) /repo and validate them
cd /verif || exit 1
git -C /repo diff --quiet || { echo "/repo has uncommitted changes"; exit 3; }
unset VERIF_EVIDENCE_DIR VERIF_REPO
FAIL=0
for P in $(python3-vt -c "import json; print(' '.join(c['property_id'] for c in json.load(open('MANIFEST.json'))['checks']))"); do
  s=$(date +%s)
  bin/check $P --tier quick > /tmp/wt/regen_$P.out 2> /tmp/wt/regen_$P.err
  rc=$?
  e=$(date +%s)
  nv=$(grep -c '^VIOLATION' /tmp/wt/regen_$P.out)
  echo "$P exit=$rc violations=$nv $((e-s))s  $(tail -1 /tmp/wt/regen_$P.err | cut -c1-150)"
  [ "$rc" = 0 ] || FAIL=1
done
python3-vt - <<'PY'
import json, jsonschema, glob
sch = json.load(open('/root/.vp/EVIDENCE.schema.json'))
for p in sorted(glob.glob('/verif/evidence/*.json')):
    e = json.load(open(p))
    jsonschema.validate(e, sch)
    c = e['coverage']
    ok = (c.get('obligations') == c.get('discharged')) if e['level'] == 'proof' else True
    print(p.split('/')[-1], e['tier'], e['level'], c.get('obligations'), c.get('discharged'), 'OK' if ok else 'MISMATCH')
PY
exit $FAIL
