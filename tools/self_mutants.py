#!/usr/bin/env python3
"""Mechanical mutants written by the author of the checks (NOT independent like /verif/seeded/<id>): each is applied to a scratch
copy of /repo's HEAD, must still compile, and the named check is run against the copy (VERIF_REPO).  Result -> seeded/SELF_MUTANTS.tsv"""
import os, subprocess, shutil, sys, time
BASE = "/var/tmp/selfmut"
MUTANTS = [
    ("M01 swap operands in arithmetic arm (Int,Byte)", "bytecode/src/variables/ops.rs", "(Int(x), Byte(y)) => Some(int!(*x $symbol *y as i32)),", "(Int(x), Byte(y)) => Some(int!((*y as i32) $symbol *x)),", "C05"),
    ("M02 swap operands in comparison arm (Int,BigInt)", "bytecode/src/variables/ops.rs", "(Int(x), BigInt(y)) => (*x as i128) $symbol *y,", "(Int(x), BigInt(y)) => *y $symbol (*x as i128),", "C05"),
    ("M03 zero guard of `/` forgets BigInt(0)", "bytecode/src/variables/ops/div.rs", "Int(0) | BigInt(0) | Byte(0) => bail!(\"/ by 0\"),", "Int(0) | Byte(0) => bail!(\"/ by 0\"),", "C17"),
    ("M04 shift amount off by one in (Int,Byte)", "bytecode/src/variables/ops/bitops.rs", "(Int(x), Byte(y)) => Ok(int!(i32::$checked(*x, *y as u32)", "(Int(x), Byte(y)) => Ok(int!(i32::$checked(*x, *y as u32 + 1)", "C05"),
    ("M05 Byte==Int compares through u8", "bytecode/src/variables/primitive.rs", "impl_eq!(Byte with Float(r=f64), BigInt(r=i128), Int(r=i32));", "impl_eq!(Byte with Float(r=f64), BigInt(r=i128), Int(r=u8));", "C05"),
    ("M06 folder: `-` folds with checked_add", "compiler/src/ast/number.rs", "number_impl!(checked_sub as Sub, sub);", "number_impl!(checked_add as Sub, sub);", "C06"),
    ("M07 to_byte truncates an int", "bytecode/src/function.rs", "u8::try_from(*i32)\n                            .with_context(|| format!(\"`{i32}` cannot be made into a byte\"))?,", "*i32 as u8,", "C14"),
    ("M08 `or` jumps on nil as well", "bytecode/src/instruction.rs", "            ctx.pop();\n            return Ok(());\n        }\n\n        ctx.signal(InstructionExitState::Goto(lines_to_jump));", "            ctx.pop();\n        }\n\n        ctx.signal(InstructionExitState::Goto(lines_to_jump));", "C12"),
    ("M09 static type of int op float is int", "compiler/src/ast/type.rs", "(Int, Float, ..) => Float,", "(Int, Float, ..) => Int,", "C02"),
    ("M10 writer forgets to escape quotes", "compiler/src/ast.rs", ".replace('\"', \"\\\\\\\"\")\n", "\n", "C04"),
    ("M11 while loop exit offset off by one", "compiler/src/ast/while_loop.rs", None, None, "C09"),
    ("M12 float parse_float declared int?", "compiler/src/ast/type.rs", "\"parse_float\" => Some(new_assoc_function!(\n                    vec![],\n                    TypeLayout::float().optional_of().into()", "\"parse_float\" => Some(new_assoc_function!(\n                    vec![],\n                    TypeLayout::int().optional_of().into()", "C14"),
    ("M13 transpiler forgets the closing quote escape", "bytecode_dev_transpiler/src/lib.rs", ".replace('\\\"', \"\\\\\\\"\")", "", "C18"),
]


def main():
    out = open("/verif/seeded/SELF_MUTANTS.tsv", "w")
    for title, rel, old, new, check in MUTANTS:
        if old is None:
            continue
        shutil.rmtree(BASE, ignore_errors=True)
        os.makedirs(BASE + "/repo")
        subprocess.run("git -C /repo archive HEAD | tar -x -C %s/repo" % BASE, shell=True, check=True)
        p = os.path.join(BASE, "repo", rel)
        s = open(p).read()
        if s.count(old) != 1:
            out.write("%s\t%s\tpattern found %d times - skipped\n" % (title, check, s.count(old)))
            out.flush()
            continue
        open(p, "w").write(s.replace(old, new))
        b = subprocess.run(["cargo", "build", "--offline", "-q"], cwd=BASE + "/repo", capture_output=True, text=True, env=dict(os.environ, CARGO_NET_OFFLINE="true", RUSTFLAGS="-Awarnings"))
        if b.returncode != 0:
            out.write("%s\t%s\tdoes not compile - skipped\n" % (title, check))
            out.flush()
            continue
        t = time.time()
        r = subprocess.run(["/verif/bin/check", check, "--tier", "quick"], capture_output=True, text=True, env=dict(os.environ, VERIF_REPO=BASE + "/repo", VERIF_EVIDENCE_DIR="/tmp/wt/evidence_scratch"))
        nv = r.stdout.count("\nVIOLATION") + (1 if r.stdout.startswith("VIOLATION") else 0)
        first = ""
        lines = r.stdout.split("\n")
        for i, l in enumerate(lines):
            if l.startswith("VIOLATION") and i + 1 < len(lines):
                first = lines[i + 1].strip()[:200]
                break
        out.write("%s\t%s\texit=%d violations=%d %.0fs\t%s\n" % (title, check, r.returncode, nv, time.time() - t, first))
        out.flush()
    shutil.rmtree(BASE, ignore_errors=True)
    out.write("DONE\n")


if __name__ == "__main__":
    main()
