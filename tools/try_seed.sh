#!/bin/bash
# try_seed.sh <seed_id> <check ids...> : apply /verif/seeded/<seed_id>/patch.diff to /repo, run the checks (quick), undo.
set -u
export VERIF_EVIDENCE_DIR=/tmp/wt/evidence_scratch
ID="$1"; shift
cd /repo || exit 3
if ! git diff --quiet; then echo "/repo has uncommitted changes"; exit 3; fi
git apply /verif/seeded/$ID/patch.diff || { echo "patch does not apply"; exit 4; }
mkdir -p /tmp/wt/try_logs
for C in "$@"; do
  ( cd /verif && bin/check $C --tier quick > /tmp/wt/try_logs/$ID.$C.out 2> /tmp/wt/try_logs/$ID.$C.err; echo "seed=$ID check=$C exit=$? $(grep -c '^VIOLATION' /tmp/wt/try_logs/$ID.$C.out) violation lines" )
done
git -C /repo checkout -- .
