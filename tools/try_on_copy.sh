#!/bin/bash
# try_on_copy.sh <patch.diff> <check ids...>: apply a patch to a scratch COPY of /repo's HEAD and run the checks against the copy
# (VERIF_REPO); /repo itself is not touched, evidence goes to a scratch directory.
set -u
PATCH="$1"; shift
D=$(mktemp -d /var/tmp/trycopy-XXXX)
mkdir -p $D/repo && git -C /repo archive HEAD | tar -x -C $D/repo
( cd $D/repo && patch -p1 -s < "$PATCH" ) || { echo "patch does not apply"; rm -rf $D; exit 4; }
export VERIF_REPO=$D/repo VERIF_EVIDENCE_DIR=/tmp/wt/evidence_scratch
for C in "$@"; do
  /verif/bin/check $C --tier quick > $D/$C.out 2> $D/$C.err
  rc=$?
  echo "check=$C exit=$rc violations=$(grep -c '^VIOLATION' $D/$C.out)"
  grep -A1 '^VIOLATION' $D/$C.out | sed -n 2p | cut -c1-300
  [ $rc = 2 ] && tail -2 $D/$C.err | cut -c1-400
done
rm -rf $D
