#!/bin/bash
# seed_matrix.sh: apply every kept seeded change to /repo in turn, run the relevant checks (quick tier), undo; results -> /verif/seeded/RESULTS.tsv
set -u
export VERIF_EVIDENCE_DIR=/tmp/wt/evidence_scratch
OUT=/verif/seeded/RESULTS.tsv
: > $OUT
run() { # seed checks...
  local ID="$1"; shift
  cd /repo || exit 3
  git diff --quiet || { echo "/repo dirty"; exit 3; }
  if ! git apply /verif/seeded/$ID/patch.diff 2>/dev/null; then printf "%s\t-\tpatch-does-not-apply\t-\n" "$ID" >> $OUT; return; fi
  for C in "$@"; do
    ( cd /verif && bin/check $C --tier quick > /tmp/wt/try_logs/$ID.$C.out 2> /tmp/wt/try_logs/$ID.$C.err )
    rc=$?
    n=$(grep -c '^VIOLATION' /tmp/wt/try_logs/$ID.$C.out)
    first=$(grep -A1 '^VIOLATION' /tmp/wt/try_logs/$ID.$C.out | sed -n 2p | cut -c1-220 | tr '\t' ' ')
    printf "%s\t%s\texit=%s violations=%s\t%s\n" "$ID" "$C" "$rc" "$n" "$first" >> $OUT
  done
  git -C /repo checkout -- .
}
mkdir -p /tmp/wt/try_logs
run C05-1 C05; run C05-2 C05; run C05-3 C05
run C06-1 C06; run C06-2 C05 C06; run C06-3 C06
run C02-1 C02; run C02-2 C02; run C02-3 C02 C05
run C17-1 C17 C05; run C17-2 C17; run C17-3 C17
run C14-1 C14; run C14-2 C14; run C14-3 C14
run C12-1 C12; run C12-2 C12; run C12-3 C12 C09
run C09-1 C09; run C09-2 C09; run C09-3 C09
run C04-1 C04; run C04-2 C04 C18; run C04-3 C04
run C18-1 C18; run C18-2 C18 C04; run C18-3 C18
echo DONE >> $OUT
