#!/bin/bash
# verify_seed.sh <seed_dir> <seed_id>   e.g. /tmp/wt/C05/_seed/1 C05-1
# Confirms in a scratch worktree of /repo HEAD: demo passes on the clean tree; with the patch the workspace builds,
# the 193-test suite passes and the demo fails.  On success copies the seed to /verif/seeded/<seed_id>/.
set -u
SD="$1"; ID="$2"
WT=/tmp/wt/verify
LOG=/tmp/wt/verify_logs/$ID.log
mkdir -p /tmp/wt/verify_logs
exec >"$LOG" 2>&1
if [ ! -d "$WT" ]; then git -C /repo worktree add -f "$WT" HEAD || exit 3; fi
cd "$WT" && git checkout -q --detach "$(git -C /repo rev-parse HEAD)" && git checkout -- . && git clean -fdq -e target
export CARGO_NET_OFFLINE=true
echo "== clean build"; cargo build --offline -j 8 2>&1 | tail -2
echo "== demo on clean tree"; bash "$SD/demo.sh" "$WT"; CLEAN=$?
echo "clean demo exit=$CLEAN"
echo "== apply patch"
if ! git apply "$SD/patch.diff"; then
  echo "RESULT $ID patch-does-not-apply"; git reset -q --hard; exit 4
fi
git diff > /tmp/wt/verify_logs/$ID.applied.diff
cargo build --offline -j 8 2>&1 | tail -2; BUILD=${PIPESTATUS[0]}
echo "== tests with patch"
TESTS=1
for attempt in 1 2 3; do
  cargo nextest run --workspace --no-fail-fast --offline --test-threads 8 2>&1 | tail -4 > /tmp/wt/verify_logs/$ID.tests
  cat /tmp/wt/verify_logs/$ID.tests
  if grep -q "193 passed" /tmp/wt/verify_logs/$ID.tests; then TESTS=0; break; fi
done
echo "== demo with patch"; bash "$SD/demo.sh" "$WT"; PATCHED=$?
echo "patched demo exit=$PATCHED"
git checkout -- . && git clean -fdq -e target
if [ "$CLEAN" = 0 ] && [ "$BUILD" = 0 ] && [ "$TESTS" = 0 ] && [ "$PATCHED" != 0 ]; then
  mkdir -p /verif/seeded/$ID
  cp -r "$SD"/. /verif/seeded/$ID/
  cp /tmp/wt/verify_logs/$ID.applied.diff /verif/seeded/$ID/patch.diff
  echo "RESULT $ID confirmed"
else
  echo "RESULT $ID NOT-confirmed clean=$CLEAN build=$BUILD tests=$TESTS patched=$PATCHED"
fi
