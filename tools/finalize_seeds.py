#!/usr/bin/env python3
"""Merge my own verification record and the seed x check matrix into every /verif/seeded/<id>/meta.json."""
import json, os, subprocess, collections
BASE = "/verif/seeded"
head = subprocess.check_output(["git", "-C", "/repo", "rev-parse", "--short", "HEAD"], text=True).strip()
matrix = collections.defaultdict(list)
# later files override earlier rows of the same (seed, check): W2b re-ran the seeds whose first run overlapped an edit of /verif
rows_by_key = collections.OrderedDict()
for name in ("RESULTS.tsv", "RESULTS_W2.tsv", "RESULTS_W2b.tsv", "RESULTS_W3.tsv", "RESULTS_W3b.tsv", "RESULTS_W4.tsv", "RESULTS_W4b.tsv", "RESULTS_W5.tsv", "RESULTS_W6.tsv", "RESULTS_W7.tsv", "RESULTS_W7b.tsv", "RESULTS_W8.tsv", "RESULTS_W9.tsv", "RESULTS_W10.tsv", "RESULTS_W11.tsv", "RESULTS_W12.tsv", "RESULTS_W13.tsv", "RESULTS_W14.tsv"):
    tsv = os.path.join(BASE, name)
    if not os.path.exists(tsv):
        continue
    fresh = set()
    for line in open(tsv):
        t = line.rstrip("\n").split("\t")
        if len(t) >= 3 and t[0] != "DONE":
            key = (t[0], t[1])
            if key in rows_by_key and key not in fresh:
                del rows_by_key[key]
            fresh.add(key)
            rows_by_key.setdefault(key, []).append({"check": t[1], "result": t[2], "first_violation": t[3] if len(t) > 3 else ""})
for (sid, _), rows in rows_by_key.items():
    matrix[sid] += rows
PORTED = {"C17-1": "rem.rs guard rewritten after fix d5ae55a", "C14-2": "to_int arm rewritten after fix 3f1f747", "C18-3": "transpiler Instruction::repr rewritten after fix 03a4aab"}
RETIRED = {"W11-C17-2": "valid against the tree up to 31a5204 (confirmed there); fix 7b02fbb (`ret` dereferences a view inside the callee) makes the change harmless: re-verification on the repaired tree - the demonstration passes with the change", "C18-2": "valid against the pinned tree up to f4acc69 (confirmed there: demo fails with the change); fix 03a4aab makes both writers quote every argument, so an unquoted comma no longer occurs and the change no longer breaks C18 on the repaired tree (re-verification: demo passes with the change)"}
for sid in sorted(os.listdir(BASE)):
    d = os.path.join(BASE, sid)
    mp = os.path.join(d, "meta.json")
    if not os.path.isdir(d) or not os.path.exists(mp):
        continue
    m = json.load(open(mp))
    m["seed_id"] = sid
    m["breaks_property"] = m.get("property", sid.split("-")[0])
    log = "/tmp/wt/verify_logs/%s.re.log" % sid
    if not os.path.exists(log):
        log = "/tmp/wt/verify_logs/%s.log" % sid
    prev = m.get("confirmed_by_me") or {}
    res = ""
    if os.path.exists(log):
        for l in open(log, errors="replace"):
            if l.startswith("RESULT"):
                res = l.strip()
    m["confirmed_by_me"] = {
        "procedure": "tools/verify_seed.sh in a scratch worktree of /repo (/tmp/wt/verify): clean build; demo.sh on the clean tree must pass; git apply patch.diff; cargo build; cargo nextest run --workspace (193 tests) must pass; demo.sh must fail; revert",
        "against_repo_head": prev.get("against_repo_head") or ("29ab41b" if sid.startswith("W2-") else head if res else "earlier HEAD"),
        "result": res or prev.get("result") or "confirmed at seeding time",
    }
    if sid in PORTED:
        m["ported"] = "patch.diff re-created on the repaired tree (same change, same demonstration): " + PORTED[sid]
    if sid in RETIRED:
        m["status"] = "retired: " + RETIRED[sid]
    else:
        m["status"] = "kept"
    m["checks_run_against_it"] = matrix.get(sid, [])
    det = sorted({c["check"] for c in matrix.get(sid, []) if "exit=1" in c["result"] and "violations=0" not in c["result"]})
    seen_rows, rows = set(), []
    for c in matrix.get(sid, []):
        if (c["check"], c["result"]) not in seen_rows:
            seen_rows.add((c["check"], c["result"]))
            rows.append(c)
    m["checks_run_against_it"] = rows
    m["detected_by"] = det
    json.dump(m, open(mp, "w"), indent=1)
    print(sid, m["status"][:20], det)
