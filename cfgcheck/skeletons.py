"""Statement skeletons for C09: every nesting spine up to a depth over {if, if/else, else-if chain, while, from-loop variants}
with a leaf in {plain statement, break, continue, return}.  Enumerating shapes is ordinary generation, not the deciding step:
for each emitted function the solver explores ALL branch outcomes."""
import itertools, random

FORMS = ["if", "ifelse_then", "ifelse_else", "elif_first", "elif_second", "elif_else", "while", "from_to", "from_through_step", "from_named", "from_stepexpr"]
LEAVES = ["plain", "break", "continue", "return", "logic", "or_param", "or_captured"]
LEAF_TEXT = {
    "plain": ["acc = acc + 1"],
    "return": ["return acc"],
    # expression-level jumps: `&&` / `||` compile to store_skip, `(x) or y` to jmp_not_nil, `get` to unwrap
    "logic": ["lb = p0 == 1 && p1 == 2 || p2 == 0", "acc = acc + 1"],
    "or_param": ["acc = acc + ((o) or 5)"],
    "or_captured": ["acc = acc + ((g_none) or 11) + ((g_some) or 13)"],
}
LOOPS = {"while", "from_to", "from_through_step", "from_named", "from_stepexpr"}


def ind(lines, n=1):
    return ["\t" * n + l for l in lines]


def other_arm(in_loop, variant):
    """the arm of an if/else that does not contain the hole: a plain statement, or a loop exit when inside a loop"""
    if in_loop and variant == 1:
        return ["continue"]
    if in_loop and variant == 2:
        return ["break"]
    return ["acc = acc + 2"]


def render(spine, leaf, variant=0):
    """-> list of source lines for the nested statement; spine = tuple of FORMS (outermost first)"""
    def go(i, in_loop):
        if i == len(spine):
            if leaf in LEAF_TEXT:
                return list(LEAF_TEXT[leaf])
            return [leaf]
        f = spine[i]
        d = i
        cond = "p%d == 1" % (d % 3)
        cond2 = "p%d == 2" % (d % 3)
        if f == "if":
            return ["if %s {" % cond] + ind(go(i + 1, in_loop)) + ["}", "acc = acc + 3"]
        if f == "ifelse_then":
            return ["if %s {" % cond] + ind(go(i + 1, in_loop)) + ["} else {"] + ind(other_arm(in_loop, variant)) + ["}", "acc = acc + 3"]
        if f == "ifelse_else":
            return ["if %s {" % cond] + ind(other_arm(in_loop, variant)) + ["} else {"] + ind(go(i + 1, in_loop)) + ["}", "acc = acc + 3"]
        if f == "elif_first":
            return ["if %s {" % cond] + ind(go(i + 1, in_loop)) + ["} else if %s {" % cond2] + ind(other_arm(in_loop, variant)) + ["} else {"] + ind(["acc = acc + 5"]) + ["}", "acc = acc + 3"]
        if f == "elif_second":
            return ["if %s {" % cond] + ind(other_arm(in_loop, variant)) + ["} else if %s {" % cond2] + ind(go(i + 1, in_loop)) + ["}", "acc = acc + 3"]
        if f == "elif_else":
            return ["if %s {" % cond] + ind(["acc = acc + 5"]) + ["} else if %s {" % cond2] + ind(other_arm(in_loop, variant)) + ["} else {"] + ind(go(i + 1, in_loop)) + ["}", "acc = acc + 3"]
        if f == "while":
            v = "w%d" % d
            return ["%s = 0" % v, "while %s < 2 {" % v] + ind(["%s = %s + 1" % (v, v)] + go(i + 1, True) + ["acc = acc + 7"]) + ["}"]
        if f == "from_to":
            return ["from 0 to 2 {"] + ind(go(i + 1, True) + ["acc = acc + 7"]) + ["}"]
        if f == "from_through_step":
            return ["from 0 through 4 step 2 {"] + ind(go(i + 1, True) + ["acc = acc + 7"]) + ["}"]
        if f == "from_named":
            v = "c%d" % d
            return ["from 0 to 2, %s {" % v] + ind(go(i + 1, True) + ["acc = acc + %s" % v]) + ["}"]
        if f == "from_stepexpr":
            v = "s%d" % d
            return ["from 0 to 4 step p%d + 1, %s {" % (d % 3, v)] + ind(go(i + 1, True) + ["acc = acc + 7"]) + ["}"]
        raise ValueError(f)
    return go(0, False)


def valid(spine, leaf):
    if leaf in ("break", "continue"):
        return any(f in LOOPS for f in spine)
    return True


def enumerate_spines(depth):
    for d in range(1, depth + 1):
        for spine in itertools.product(FORMS, repeat=d):
            for leaf in LEAVES:
                if valid(spine, leaf):
                    yield spine, leaf


def function_source(name, spine, leaf, variant):
    body = ["acc = 0"] + render(spine, leaf, variant) + ["return acc"]
    return ["%s = fn(p0: int, p1: int, p2: int, o: int?) -> int {" % name] + ind(body) + ["}"]


ARGS = [(0, 0, 0), (1, 1, 1), (2, 2, 2), (1, 0, 2), (0, 1, 1), (2, 1, 0)]


def module_source(funcs, call=True):
    """funcs: list of (name, spine, leaf, variant) -> MScript module text"""
    lines = ["g_none: int? = nil", "g_some: int? = 7"]
    for name, spine, leaf, variant in funcs:
        lines += function_source(name, spine, leaf, variant)
    if call:
        for name, _, _, _ in funcs:
            for i, a in enumerate(ARGS):
                lines.append("print %s(%d, %d, %d, %s)" % ((name,) + a + ("nil" if i % 2 == 0 else "4",)))
    return "\n".join(lines) + "\n"


def select(depth, limit, seed):
    """all spines up to `depth`, every variant of the non-hole arm; beyond `limit` a seeded sample (always keeping depth<=2 complete)"""
    full = []
    for spine, leaf in enumerate_spines(depth):
        nvar = 3 if any(f in LOOPS for f in spine) and any(f.startswith(("ifelse", "elif")) for f in spine) else 1
        for v in range(nvar):
            full.append((spine, leaf, v))
    if len(full) <= limit:
        return full, len(full), True
    keep = [x for x in full if len(x[0]) <= 2]
    rest = [x for x in full if len(x[0]) > 2]
    rnd = random.Random(seed)
    rnd.shuffle(rest)
    return keep + rest[:max(0, limit - len(keep))], len(full), False
