"""All-paths structural check of one compiled function (C09): constrained Horn clauses over
(instruction index; S = open special scopes, D = scope frames above the function frame, H = operand-stack height),
solved by z3's Spacer.  Branch outcomes are unconstrained, so every path - taken at run time or not - is covered, for any
number of loop iterations (S, D, H are unbounded integers).

The step relation below is a SUMMARY of the interpreter (bytecode/src/function.rs Function::run + the instruction bodies);
it is validated on every run against real executions through the trace hook (trace.py)."""
import z3

PUSH1 = {"make_bool", "make_str", "make_bigint", "make_int", "make_float", "make_byte", "make_function", "load", "load_fast", "arg",
         "load_callback", "reserve_primitive", "ld_self", "load_self_export"}
SAME = {"nop", "printn", "delete_name_scoped", "delete_name_reference_scoped", "breakpoint", "stack_dump", "export_name"}
CALLS = {"call", "call_self", "call_object", "call_lib"}
TERMINAL = {"ret", "ret_mod"}


class Instr:
    __slots__ = ("op", "args")

    def __init__(self, op, args):
        self.op, self.args = op, args

    def __repr__(self):
        return "%s %s" % (self.op, " ".join(self.args))


def parse_raw_text(text):
    """raw-text bytecode (`compile --output-format raw-text`) -> {function name: [Instr]}"""
    funcs = {}
    cur = None
    for line in text.split("\n"):
        if line.startswith("function "):
            cur = []
            funcs[line[len("function "):].strip()] = cur
        elif line.strip() == "end":
            cur = None
        elif cur is not None and line.strip():
            t = line.strip()
            op, _, rest = t.partition(" ")
            cur.append(Instr(op, split_args(rest)))
    return funcs


def split_args(s):
    out, i, n = [], 0, len(s)
    while i < n:
        if s[i].isspace():
            i += 1
            continue
        if s[i] == '"':
            j = i + 1
            buf = ""
            while j < n and s[j] != '"':
                if s[j] == "\\" and j + 1 < n:
                    buf += {"n": "\n", "r": "\r", "t": "\t"}.get(s[j + 1], s[j + 1])      # the escapes of split_string_v2
                    j += 2
                    continue
                buf += s[j]
                j += 1
            out.append(buf)
            i = j + 1
        else:
            j = i
            while j < n and not s[j].isspace():
                j += 1
            out.append(s[i:j])
            i = j
    return out


def intarg(ins, k, default=None):
    try:
        return int(ins.args[k])
    except (IndexError, ValueError):
        if default is not None:
            return default
        raise ValueError("instruction `%r` lacks integer argument %d" % (ins, k))


def _and(a, b):
    return (a and b) if isinstance(a, bool) and isinstance(b, bool) else z3.And(a, b)


def _ite(c, a, b):
    return (a if c else b) if isinstance(c, bool) else z3.If(c, a, b)


def _const(n, like):
    """integer constant in the domain of `like` (python int for concrete replay of traces, z3 Int for the solver)"""
    return n if isinstance(like, int) else z3.IntVal(n)


class Violation:
    def __init__(self, kind, ip, detail):
        self.kind, self.ip, self.detail = kind, ip, detail

    def __repr__(self):
        return "%s@%d: %s" % (self.kind, self.ip, self.detail)


def successors(code, i):
    """symbolic step summary of instruction i: list of (target ip, guard(S,D,H) -> z3 bool or None, update(S,D,H) -> (S',D',H'))
    plus list of (violation kind, condition(S,D,H), detail).  `None` target = the function returns."""
    ins = code[i]
    op = ins.op
    n = len(code)
    succ, viol = [], []
    T = lambda S, D, H: True

    def jump_target(off, what):
        t = i + off
        if t < 0 or t >= n:
            viol.append(("jump-out-of-function", T, "%s at #%d jumps to #%d, function has %d instructions" % (what, i, t, n)))
            return None
        return t

    if op in ("if_stmt", "while_loop"):
        viol.append(("operand-stack", lambda S, D, H: H < 1, "`%s` needs a condition on the operand stack" % op))
        succ.append((i + 1, T, lambda S, D, H: (S + 1, D + 1, _const(0, H))))
        t = jump_target(intarg(ins, 0), op)
        if t is not None:
            succ.append((t, T, lambda S, D, H: (S, D, _const(0, H))))
    elif op == "else_stmt":
        succ.append((i + 1, T, lambda S, D, H: (S + 1, D + 1, H)))
    elif op == "done":
        viol.append(("frame-underflow", lambda S, D, H: _and(S > 0, D < 1), "`done` pops the function's own frame"))
        viol.append(("frame-leak", lambda S, D, H: _and(S < 1, D > 0), "`done` finds no open scope marker and leaves a frame behind"))
        succ.append((i + 1, lambda S, D, H: S > 0, lambda S, D, H: (S - 1, D - 1, H)))
        succ.append((i + 1, lambda S, D, H: S < 1, lambda S, D, H: (S, D, H)))
    elif op == "jmp":
        t = jump_target(intarg(ins, 0), op)
        if t is not None:
            succ.append((t, T, lambda S, D, H: (S, D, H)))
    elif op == "jmp_pop":
        k = intarg(ins, 1, 1)
        viol.append(("frame-underflow", lambda S, D, H: D < k, "`jmp_pop` pops %d frame(s) but fewer scope frames are open" % k))
        t = jump_target(intarg(ins, 0), op)
        if t is not None:
            succ.append((t, T, lambda S, D, H: (S, D - k, H)))
    elif op == "jmp_not_nil":
        viol.append(("operand-stack", lambda S, D, H: H < 1, "`jmp_not_nil` needs a value"))
        succ.append((i + 1, T, lambda S, D, H: (S, D, H - 1)))
        t = jump_target(intarg(ins, 0), op)
        if t is not None:
            succ.append((t, T, lambda S, D, H: (S, D, H)))
    elif op == "store_skip":
        viol.append(("operand-stack", lambda S, D, H: H != 1, "`store_skip` needs exactly one value"))
        succ.append((i + 1, T, lambda S, D, H: (S, D, _const(0, H))))
        off = intarg(ins, 2)
        if off < 0:
            viol.append(("jump-out-of-function", T, "`store_skip` with a negative offset"))
        else:
            t = jump_target(off, op)
            if t is not None:
                succ.append((t, T, lambda S, D, H: (S, D, _const(1, H))))
    elif op in TERMINAL:
        if op == "ret":
            viol.append(("operand-stack", lambda S, D, H: H > 1, "`ret` with more than one value"))
        succ.append((None, T, None))
    else:
        hs = stack_effect(ins, viol)
        if hs is None:
            succ.append((i + 1, T, "havoc"))     # opcode whose operand-stack effect is not in the summary
        else:
            for h in hs:
                succ.append((i + 1, T, h))
    return succ, viol


def stack_effect(ins, viol):
    """operand-stack effect of a non-control instruction: list of update functions (more than one = nondeterministic)"""
    op = ins.op
    keep = lambda S, D, H: (S, D, H)
    if op in PUSH1:
        return [lambda S, D, H: (S, D, H + 1)]
    if op in SAME:
        return [keep]
    if op in ("store", "store_fast", "assert"):
        viol.append(("operand-stack", lambda S, D, H: H != 1, "`%s` needs exactly one value" % op))
        return [lambda S, D, H: (S, D, _const(0, H))]
    if op == "void":
        return [lambda S, D, H: (S, D, _const(0, H))]
    if op == "pop":
        return [lambda S, D, H: (S, D, _ite(H > 0, H - 1, H))]
    if op == "fast_rev2":
        viol.append(("operand-stack", lambda S, D, H: H != 2, "`fast_rev2` needs exactly two values"))
        return [keep]
    if op == "bin_op":
        viol.append(("operand-stack", lambda S, D, H: H < 2, "`bin_op` needs two operands"))
        return [lambda S, D, H: (S, D, _const(1, H))]
    if op in ("equ", "neq"):
        viol.append(("operand-stack", lambda S, D, H: H != 2, "`%s` needs exactly two operands" % op))
        return [lambda S, D, H: (S, D, _const(1, H))]
    if op in ("neg", "not", "unwrap", "unwrap_into"):
        viol.append(("operand-stack", lambda S, D, H: H < 1, "`%s` needs an operand" % op))
        return [keep]
    if op == "bin_op_assign":
        if len(ins.args) >= 2:
            viol.append(("operand-stack", lambda S, D, H: H < 1, "`bin_op_assign` needs a value"))
            return [keep]
        viol.append(("operand-stack", lambda S, D, H: H < 2, "`bin_op_assign` (pointer form) needs a pointer and a value"))
        return [lambda S, D, H: (S, D, H - 1)]
    if op in CALLS:
        return [lambda S, D, H: (S, D, _const(0, H)), lambda S, D, H: (S, D, _const(1, H))]
    return None   # unknown: operand stack not modelled


def _b(x):
    return z3.BoolVal(x) if isinstance(x, bool) else x


def reaches_return(code, steps, timeout_ms):
    n = len(code)
    S, D, H, H2 = z3.Ints("S D H H2")
    fp = z3.Fixedpoint()
    fp.set(engine="spacer")
    fp.set("timeout", int(timeout_ms))
    R = [z3.Function("R%d" % i, z3.IntSort(), z3.IntSort(), z3.IntSort(), z3.BoolSort()) for i in range(n + 1)]
    Goal = z3.Function("Goal", z3.BoolSort())
    for r in R:
        fp.register_relation(r)
    fp.register_relation(Goal)
    fp.declare_var(S, D, H, H2)
    fp.rule(R[0](0, 0, 0))
    for i in range(n):
        for tgt, guard, upd in steps[i][0]:
            if tgt is None:
                fp.rule(Goal(), R[i](S, D, H))
                continue
            g = _b(guard(S, D, H))
            if upd == "havoc":
                fp.rule(R[tgt](S, D, H2), z3.And(R[i](S, D, H), H2 >= 0))
                continue
            s2, d2, h2 = upd(S, D, H)
            fp.rule(R[tgt](s2, d2, h2), z3.And(R[i](S, D, H), g))
    fp.rule(Goal(), R[n](S, D, H))
    return fp.query(Goal()) == z3.sat


def check_function(name, code, timeout_ms=20000, want_stack=True, vacuity_witness=False):
    """-> dict(status 'ok'|'violation'|'unknown'|'unmodelled', violations [...], stats)"""
    n = len(code)
    steps = []
    unmodelled = None
    for i in range(n):
        try:
            succ, viol = successors(code, i)
        except ValueError as e:
            return {"status": "unknown", "reason": str(e), "violations": []}
        steps.append((succ, viol))
    # unknown opcodes: stack_effect returned None -> succ contains (i+1, T, None-update)?  handled below
    kinds = ["jump-out-of-function", "frame-underflow", "frame-leak", "frame-imbalance-at-end", "frames-accumulate-in-loop"]
    # operand-stack obligations are decided only on call-free functions whose opcodes all have a summarised stack effect:
    # a call leaves 0 or 1 values (callee-dependent), so a query that is sat only through that over-approximation is not a finding
    exact_stack = all(ins.op not in CALLS and not any(u == "havoc" for _, _, u in steps[i][0]) for i, ins in enumerate(code))
    if want_stack and exact_stack:
        kinds.append("operand-stack")
    res = run_spacer(name, code, steps, set(kinds), timeout_ms)
    res["operand_stack_decided"] = "operand-stack" in kinds
    if res["status"] == "ok" and vacuity_witness:
        # vacuity guard: the same clauses must be able to REACH a return (a model in which nothing is reachable proves everything)
        if not reaches_return(code, steps, timeout_ms):
            return {"status": "unknown", "reason": "vacuity witness failed: no `ret` is reachable in the encoding", "violations": []}
        res["vacuity_witness"] = "a return is reachable"
    if res["status"] == "violation":
        # which one(s)?  re-query per kind (and per site for the report)
        found = []
        for k in kinds:
            r = run_spacer(name, code, steps, {k}, timeout_ms, per_site=True)
            found += r.get("sites", [])
        res["violations"] = found
    return res


def run_spacer(name, code, steps, kinds, timeout_ms, per_site=False):
    n = len(code)
    S, D, H = z3.Ints("S D H")
    S2, D2, H2 = z3.Ints("S2 D2 H2")
    sites = []

    def build(only_site=None):
        fp = z3.Fixedpoint()
        fp.set(engine="spacer")
        fp.set("timeout", int(timeout_ms))
        R = [z3.Function("R%d" % i, z3.IntSort(), z3.IntSort(), z3.IntSort(), z3.BoolSort()) for i in range(n + 1)]
        Err = z3.Function("Err", z3.BoolSort())
        for r in R:
            fp.register_relation(r)
        fp.register_relation(Err)
        fp.declare_var(S, D, H, S2, D2, H2)
        fp.rule(R[0](0, 0, 0))
        site_no = [0]

        def err_rule(kind, ip, body, detail):
            if kind not in kinds:
                return
            site_no[0] += 1
            if only_site is not None and site_no[0] != only_site:
                return
            fp.rule(Err(), body)
            if only_site is not None:
                sites.append(Violation(kind, ip, detail))

        unmodelled = False
        backward_targets = set()
        for i in range(n):
            succ, viol = steps[i]
            for kind, cond, detail in viol:
                err_rule(kind, i, z3.And(R[i](S, D, H), _b(cond(S, D, H))), detail)
            for tgt, guard, upd in succ:
                if tgt is None:
                    continue
                g = _b(guard(S, D, H))
                if upd == "havoc":
                    unmodelled = True
                    fp.rule(R[tgt](S, D, H2), z3.And(R[i](S, D, H), H2 >= 0))
                    continue
                s2, d2, h2 = upd(S, D, H)
                fp.rule(R[tgt](s2, d2, h2), z3.And(R[i](S, D, H), g))
                if tgt <= i:
                    backward_targets.add(tgt)
        # falling off the end: only the function frame may be left
        err_rule("frame-imbalance-at-end", n, z3.And(R[n](S, D, H), D != 0), "the function ends with scope frames still open (or already popped)")
        for h in sorted(backward_targets):
            err_rule("frames-accumulate-in-loop", h, z3.And(R[h](S, D, H), R[h](S2, D2, H2), D < D2),
                     "the loop head #%d is reachable with different numbers of open frames: iterations accumulate (or lose) frames" % h)
        return fp, Err, site_no[0], unmodelled

    fp, Err, nsites, unmodelled = build()
    r = fp.query(Err())
    if r == z3.unsat:
        return {"status": "ok", "sites_checked": nsites, "unmodelled": unmodelled}
    if r == z3.unknown:
        return {"status": "unknown", "reason": "spacer: " + fp.reason_unknown(), "sites_checked": nsites}
    out = {"status": "violation", "sites_checked": nsites}
    if per_site:
        for k in range(1, nsites + 1):
            sites_before = len(sites)
            fp2, Err2, _, _ = build(only_site=k)
            rr = fp2.query(Err2())
            if rr != z3.sat:
                del sites[sites_before:]
        out["sites"] = list(sites)
    return out
