"""Validation of the step summary (model.successors) against real executions recorded by the trace hook
(`--cfg mscript_verif`, MSCRIPT_VERIF_TRACE), and the property checked directly on real traces."""
import z3
import model as M


def read_trace(path):
    recs = []
    with open(path) as f:
        for line in f:
            t = line.split()
            if len(t) != 6:
                continue
            recs.append((t[0], int(t[1]), int(t[2]), int(t[3]), int(t[4]), int(t[5])))
    return recs


def activations(recs):
    """split the interleaved record stream into per-activation record lists"""
    stack, done = [], []
    for r in recs:
        fn, ip = r[0], r[1]
        if stack and stack[-1][0] == fn and not (ip == 0 and stack[-1][1][-1][2] in CALL_OPCODES):
            stack[-1][1].append(r)
            continue
        if ip == 0:
            stack.append((fn, [r]))
            continue
        while stack and stack[-1][0] != fn:
            done.append(stack.pop())
        if not stack:
            stack.append((fn, [r]))
        else:
            stack[-1][1].append(r)
    while stack:
        done.append(stack.pop())
    return done


CALL_OPCODES = set()


def concrete(v):
    v = z3.simplify(v) if z3.is_expr(v) else v
    if z3.is_expr(v):
        if z3.is_int_value(v):
            return v.as_long()
        if z3.is_true(v):
            return True
        if z3.is_false(v):
            return False
        raise ValueError("non-concrete %s" % v)
    return v


def explains(code, prev, cur, base):
    """is the observed transition prev -> cur an instance of the summary rule of prev's instruction?"""
    _, ip, _, fr, ss, h = prev
    _, ip2, op2, fr2, ss2, h2 = cur
    succ, _ = M.successors(code, ip)
    S, D, H = ss, fr - base, h          # concrete replay: the summary functions are evaluated on python ints
    for tgt, guard, upd in succ:
        if tgt is None or tgt != ip2:
            continue
        if not guard(S, D, H):
            continue
        if upd == "havoc":
            if ss2 == ss and fr2 == fr:
                return True
            continue
        s2, d2, hh = upd(S, D, H)
        if s2 == ss2 and d2 == fr2 - base and hh == h2:
            return True
    return False


def validate(recs, functions, opnames):
    """-> (transitions checked, mismatches [(function, prev, cur)], property violations on the real trace [(function, what)])"""
    global CALL_OPCODES
    CALL_OPCODES = {k for k, v in opnames.items() if v in M.CALLS}
    checked, mism, real = 0, [], []
    for fn, rs in activations(recs):
        code = functions.get(fn)
        if code is None:
            continue
        base = rs[0][3]
        heads = {}
        for a, b in zip(rs, rs[1:]):
            if a[2] == 255:
                continue
            opname = opnames.get(a[2])
            if opname != code[a[1]].op:
                mism.append((fn, a, b, "opcode %r at #%d is %s in the trace but %s in the compiled text" % (a[2], a[1], opname, code[a[1]].op)))
                continue
            if opname in M.CALLS:
                # the callee runs in between; only the operand-stack effect is observable here
                if not (b[3] == a[3] and b[4] == a[4] and b[5] in (0, 1) and b[1] == a[1] + 1):
                    mism.append((fn, a, b, "call"))
                checked += 1
                continue
            checked += 1
            if b[2] == 255 and b[1] == len(code):
                pass
            if not explains(code, a, b, base):
                mism.append((fn, a, b, "transition of `%r` not an instance of its summary rule" % (code[a[1]],)))
            if b[1] <= a[1] and b[2] != 255:
                d = b[3] - base
                if b[1] in heads and heads[b[1]] != d:
                    real.append((fn, "loop head #%d entered with %d and then %d open frames: iterations accumulate frames" % (b[1], heads[b[1]], d)))
                heads.setdefault(b[1], d)
        last = rs[-1]
        if last[2] == 255 and last[3] - base != 0:
            real.append((fn, "function falls off its end with %d scope frames open" % (last[3] - base)))
    return checked, mism, real
